#!/usr/bin/env python3
"""Run the pinned suite in a checkout and compare with BASELINE.json's stable_pass set.
usage: run_suite.py <checkout dir> [-n N]      exit 0 iff every stable_pass test passes."""
import ast, json, os, subprocess, sys, tempfile, xml.etree.ElementTree as ET

def main():
    d = os.path.abspath(sys.argv[1])
    n = None
    if '-n' in sys.argv:
        n = sys.argv[sys.argv.index('-n') + 1]
    base = json.load(open('/root/.vp/BASELINE.json'))
    stable = base['stable_pass']
    if isinstance(stable, str):
        stable = ast.literal_eval(stable)
    stable = set(stable)
    fd, xml = tempfile.mkstemp(suffix='.xml'); os.close(fd)
    cmd = ['/venv/bin/python', '-m', 'pytest', '-q', '-p', 'no:cacheprovider', '--timeout=900',
           '--continue-on-collection-errors', f'--junitxml={xml}']
    if n:
        cmd += ['-n', n]
    env = dict(os.environ); env.pop('BEARTYPE_VERIF', None); env['PYTHONDONTWRITEBYTECODE'] = '1'
    r = subprocess.run(cmd, cwd=d, env=env, capture_output=True, text=True)
    passed = set()
    try:
        for tc in ET.parse(xml).getroot().iter('testcase'):
            if not any(ch.tag in ('failure', 'error', 'skipped') for ch in tc):
                passed.add(f"{tc.get('classname')}::{tc.get('name')}")
    finally:
        os.unlink(xml)
    missing = sorted(stable - passed)
    print(r.stdout[-600:])
    print(f'passed={len(passed)} stable={len(stable)} stable_not_passing={len(missing)}')
    for m in missing[:30]:
        print('  NOT PASSING:', m)
    return 1 if missing else 0

if __name__ == '__main__':
    sys.exit(main())
