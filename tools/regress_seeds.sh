#!/bin/bash
# Re-run every seeded defect against the quick check(s) recorded as catching it, on /repo HEAD; prints one line per seed.
cd /verif
for d in seeded/*/; do
  n=$(basename $d); prop=${n%%-*}; mk=${n##*-}
  chk=$prop
  case $n in C17-m1) chk=C15;; C02-m3) chk=C14;; esac
  out=$(python3 tools/verify_seed.py $prop $mk --src /nonexistent --check $chk 2>&1)
  ap=$(echo "$out" | grep -c '"patch_applies": true')
  ex=$(echo "$out" | grep -A1 "\"$chk:quick\"" | grep '"exit"' | tr -dc 0-9)
  de=$(echo "$out" | grep '"demo_mutant_exit"' | tr -dc 0-9)
  echo "$n check=$chk applies=$ap demo_mutant_exit=$de check_exit=$ex"
done
