#!/usr/bin/env python3
"""Verify one seeded defect and record it under /verif/seeded/<prop>-<mK>/.

usage: verify_seed.py <prop> <mK> [--src DIR] [--suite] [--check Cxx[,Cyy]] [--tier quick]
  DIR (default /tmp/wt/out/<prop>) holds mK.patch.diff, mK_demo.py, mK.meta.json.
Steps (all in a scratch worktree of /repo HEAD, removed afterwards):
  demo on clean tree must exit 0; patch must apply; demo must exit != 0;
  --suite: pinned suite must keep every stable test passing;
  --check: the named checks are run against the mutated worktree (BEARMC_REPO) and must print VIOLATION.
"""
import json, os, shutil, subprocess, sys, tempfile, time

def sh(cmd, **kw):
    return subprocess.run(cmd, shell=True, capture_output=True, text=True, **kw)

def main():
    a = sys.argv[1:]
    prop, mk = a[0], a[1]
    src = a[a.index('--src') + 1] if '--src' in a else f'/tmp/wt/out/{prop}'
    checks = a[a.index('--check') + 1].split(',') if '--check' in a else []
    tier = a[a.index('--tier') + 1] if '--tier' in a else 'quick'
    dst = f'/verif/seeded/{prop}-{mk}'
    os.makedirs(dst, exist_ok=True)
    for s, d in ((f'{mk}.patch.diff', 'patch.diff'), (f'{mk}_demo.py', 'demo.py')):
        if os.path.exists(os.path.join(src, s)):
            shutil.copy(os.path.join(src, s), os.path.join(dst, d))
    meta_path = os.path.join(dst, 'meta.json')
    meta = json.load(open(meta_path)) if os.path.exists(meta_path) else {}
    if os.path.exists(os.path.join(src, f'{mk}.meta.json')) and 'seeder' not in meta:
        try:
            meta['seeder'] = json.load(open(os.path.join(src, f'{mk}.meta.json')))
        except Exception as e:
            meta['seeder'] = {'unparseable': str(e)}
    meta.setdefault('property', prop)
    wt = tempfile.mkdtemp(prefix=f'seed-{prop}-{mk}-', dir='/tmp/wt')
    os.rmdir(wt)
    r = sh(f'git -C /repo worktree add --detach {wt} HEAD -q')
    assert r.returncode == 0, r.stderr
    env = dict(os.environ, PYTHONPATH=wt, PYTHONDONTWRITEBYTECODE='1')
    res = meta.setdefault('verified_by_builder', {})
    res['repo_head'] = sh('git -C /repo rev-parse --short HEAD').stdout.strip()
    try:
        demo = os.path.join(dst, 'demo.py')
        fixed_demo = open(demo).read().replace(f'/tmp/wt/{prop}', wt)
        tmpdemo = os.path.join(wt, '_seed_demo.py')
        open(tmpdemo, 'w').write(fixed_demo)
        r0 = sh(f'cd {wt} && /venv/bin/python _seed_demo.py', env=env, timeout=600)
        res['demo_clean_exit'] = r0.returncode
        ra = sh(f'git -C {wt} apply {dst}/patch.diff')
        res['patch_applies'] = ra.returncode == 0
        if ra.returncode != 0:
            res['patch_error'] = ra.stderr[-400:]
        else:
            r1 = sh(f'cd {wt} && /venv/bin/python _seed_demo.py', env=env, timeout=600)
            res['demo_mutant_exit'] = r1.returncode
            res['demo_mutant_tail'] = (r1.stdout + r1.stderr)[-300:]
            os.unlink(tmpdemo)
            if '--suite' in a:
                t0 = time.time()
                rs = sh(f'python3 /verif/tools/run_suite.py {wt} -n 8', timeout=3600)
                line = [l for l in rs.stdout.splitlines() if 'stable_not_passing' in l]
                res['suite'] = line[-1] if line else rs.stdout[-300:]
                res['suite_s'] = round(time.time() - t0)
            for c in checks:
                t0 = time.time()
                rc = sh(f'cd /verif && BEARMC_REPO={wt} ./check {c} --tier {tier}', timeout=7200)
                viol = [l for l in rc.stdout.splitlines() if l.startswith('VIOLATION')]
                res.setdefault('checks', {})[f'{c}:{tier}'] = {
                    'exit': rc.returncode, 'violations': len(viol), 'first': viol[0][:400] if viol else None,
                    'cmd': f'BEARMC_REPO=<worktree with patch applied> ./check {c} --tier {tier}', 'wall_s': round(time.time() - t0)}
    finally:
        sh(f'git -C /repo worktree remove --force {wt}')
        # evidence files written by a mutant run are not evidence for the real tree
    # merge with whatever another (background) verification wrote meanwhile
    if os.path.exists(meta_path):
        try:
            disk = json.load(open(meta_path))
            old = disk.get('verified_by_builder', {})
            for k, v in res.items():
                if k == 'checks':
                    old.setdefault('checks', {}).update(v)
                else:
                    old[k] = v
            disk['verified_by_builder'] = old
            for k, v in meta.items():
                disk.setdefault(k, v)
            meta = disk
        except Exception:
            pass
    json.dump(meta, open(meta_path, 'w'), indent=1)
    print(json.dumps(res, indent=1))

if __name__ == '__main__':
    main()
