#!/bin/bash
# Confirm, for every seeded defect that has no suite result yet, that the pinned suite stays green with the patch applied.
cd /verif
for d in seeded/*/; do
  n=$(basename $d); prop=${n%%-*}; mk=${n##*-}
  if ! grep -q '"suite"' $d/meta.json 2>/dev/null; then
    echo "== $n"; python3 tools/verify_seed.py $prop $mk --src /nonexistent --suite 2>&1 | grep -E '"suite"|patch_applies'
  fi
done
