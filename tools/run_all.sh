#!/bin/bash
# usage: tools/run_all.sh <tier> [seed] [ids...]  -- runs checks sequentially, prints id, exit code, seconds, alarm lines
tier=${1:-quick}; seed=${2:-0}; shift 2 2>/dev/null
ids=${@:-C01 C02 C03 C04 C05 C06 C07 C08 C09 C10 C11 C12 C13 C14 C15 C16 C17 C18 C19 C20}
cd "$(dirname "$0")/.."
for id in $ids; do
  t0=$(date +%s.%N)
  out=$(VERIF_SEED=$seed ./check $id --tier $tier 2>&1); rc=$?
  t1=$(date +%s.%N)
  printf "%s tier=%s seed=%s rc=%s secs=%.0f viol=%s known=%s\n" $id $tier $seed $rc $(echo "$t1 - $t0" | bc) \
     $(echo "$out" | grep -c '^VIOLATION') $(echo "$out" | grep -c '^KNOWN-FINDING')
  if [ $rc -ne 0 ]; then echo "$out" | tail -15; fi
done
