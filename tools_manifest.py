#!/usr/bin/env python3
"""Regenerates MANIFEST.json from the table below (single source of truth)."""
import json, os
HERE = os.path.dirname(os.path.abspath(__file__))
BASE_CMD = "cd /repo && /venv/bin/python -m pytest -ra -q -p no:cacheprovider --timeout=900 --continue-on-collection-errors"

CHECKS = {
 'C01': dict(engine='E1-enum', technique='bounded-exhaustive enumeration of hint terms x witness objects x sampler-draw residues x configurations against a reference model (small-scope model checking of the implementation)',
   text='Every hint term of a stated grammar (all container families, unions, literals, tuples, type[], TypeVars, NewType, Annotated, protocols, generics; nesting level <= 2 quick / <= 3 thorough) x every model-validated conforming object with containers of size <= 3 x every residue class of the 32-bit draw x 5 configurations x 3 entry points is executed on the real code; any rejection, exception or warning is a violation. Coverage statement, not a proof for unbounded nesting/size.',
   note='Trusted: the reference predicate sat_all (60 lines, self-tested against a truth table); CPython; the draw seam codemain.getrandbits (asserted present).', ref='5/C01'),
 'C02': dict(engine='E1-enum', technique='bounded-exhaustive enumeration of hint terms x structured violators (one damaged position class each) x draw residues x is_random, reachability of every sequence index, draw-count and generated-source scan',
   text='For every enumerated hint term: every generated object with NOT sat_some (violation where no sampling is involved, or every item/key/value bad) must be rejected by 3 entry points for every residue of the draw and both is_random settings; for every sequence of length 1..3 with exactly one bad item (also under 6 kinds of conforming single-item parents) some residue must reject, and with is_random=False exactly the i=0 case; at most one draw per check; the draw appears in generated code only as r % len(x).',
   note='Trusted: sat_some (weakest reading under which rejection is promised); joint reachability in nested sampled sequences is deliberately not asserted.', ref='5/C02'),
 'C03': dict(engine='E1-enum', technique='bounded-exhaustive differential execution of six entry points under one scripted draw over hint terms x objects x residues x 10 configurations',
   text='Six entry points (is_bearable, die_if_unbearable, TypeHint.is_bearable/die_if_unbearable, decorated parameter, decorated return) are executed for every enumerated (hint, object, residue, configuration) and must reach one verdict; a rejection must be exactly the configured class for its pith kind (warning classes emitted, call proceeds), name the hint (up to hint equality) and carry the object as culprits[0]; any other exception (desynchronisation included) is a violation.',
   note='Configuration axis covered pairwise (10 configurations), all of them on a representative core of hints; message text beyond naming the hint is not asserted.', ref='5/C03'),
 'C12': dict(engine='E1-enum', technique='bounded-exhaustive enumeration of validator expression terms x base hints x placements x objects against a boolean reference evaluator',
   text='All validator expressions over 16 leaves (Is, IsEqual, IsInstance, IsSubclass, IsAttr nested to depth 2 incl. same-name nesting) closed under ~ & | completely to depth 1 and over representatives to depth 2 (3 thorough), under base hints {object,int,K} at 6 placements (root and five positions where the pith is an expression) on 31 objects: boolean meaning == V.is_valid == is_bearable == die_if_unbearable, and the validator blamed in the message plus every leaf verdict of its diagnosis tree agree with the model.',
   note='Trusted: valemodel.vsat (20 lines).', ref='5/C12'),
 'C18': dict(engine='E1-enum', technique='bounded-exhaustive metamorphic execution: hint under a rewriting configuration vs hand-rewritten hint under the default configuration, over hint terms x objects x draw residues x both configuration orders',
   text='For every enumerated hint over float/complex/overridden classes (all container families, unions, Annotated with validators and plain metadata, NewType/TypeVar over float, type[], tuples, generics; nesting <= 2, 3 thorough) and 9 rewriting configurations, the observations (is_bearable, die_if_unbearable incl. culprits, decorated param+return, decoration failures) must equal those of the term-level hand-rewritten hint under the default configuration for every object and draw residue; configuration lists are walked in both orders in separate processes; verdicts must be invariant under 5 violation_* settings.',
   note='Differential oracle (no expected values); hand-rewriting is done on hint terms, NewType/TypeVar over float are rewritten to the union itself.', ref='5/C18'),
 'C19': dict(engine='E1-enum', technique='exhaustive evaluation of the is_subhint relation on all ordered pairs of an enumerated hint set, closure check on all triples, soundness against a reference model and the implementation over an object universe',
   text='The complete is_subhint matrix over ~420 enumerated hints is computed on the real code; reflexivity on the diagonal, transitivity on every triple (closure of the matrix), soundness of every true pair not involving Any against every universe object satisfying the left hint (reference model and is_bearable for all draw residues), and TypeHint identity / ==-hash-mutual-subhint / len-iter-getitem-contains-args coherence on every wrapper. Six families of inputs on which the unchanged tree violates the statement are listed as known findings; three defects were repaired.',
   note='Pairs whose is_subhint raises are undecided and excluded; Callable hints are judged by callability only.', ref='5/C19'),
 'C20': dict(engine='E1-enum', technique='bounded-exhaustive enumeration of object terms (all carriers x all item tuples up to size 3, nested two to three levels, views, self-referential containers) through infer_hint and is_bearable for every draw residue',
   text='For ~6000 (quick) enumerated objects is_bearable(obj, infer_hint(obj)) must be True for every residue of the sampler draw under the default inference; inference must return without foreign warnings or exceptions under both configurations; self-referential containers must terminate, with the recursion warning exactly when the cycle was reached. Four families of failing inputs on the unchanged tree are listed as known findings.',
   note='Acceptance is asserted for the default linear-time inference only.', ref='5/C20'),
 'C17': dict(engine='E2-snap', technique='fork-snapshot depth-first search over creation histories of BeartypeConf on the real process state, each node judged against a declarative option table and against the same operation in a fresh process',
   text='Every history of BeartypeConf(**kw) creations up to length 2 (quick: second step restricted to same-option and sampled other operations; thorough: all pairs, and length 3 over a core) over ~165 keyword sets (explicit defaults, valid values, invalid values, equal-but-not-identical look-alikes, option pairs in both keyword orders) is executed by forking the process at every node. Validation outcome, read-back, memoisation (identity for equal arguments in any order), inequality of different arguments, hash/eq and kwargs round trip are checked at every node, and every observation must equal the fresh-process observation.',
   note='States are real processes (fork), so nothing is assumed about which tables hold the memoised state; the option table SPEC is the trusted contract.', ref='5/C17'),
 'C14': dict(engine='E2-snap', technique='fork-snapshot depth-first search over histories of public-API operations chosen to collide in memo tables; differential against the fresh-process answer',
   text='Every history of length <= 2 (3 thorough, first steps over a core) over 49 (97 thorough) operations - checks, subhint queries, TypeHint comparisons, decorations over equal-but-distinct hints, hash-equal literals, classes and TypeVars with identical repr, unhashable hints, forward references resolved in two scopes or failing first, same-named class redefinitions, id() reuse after gc, clear_caches - is executed by forking the real process at every node; the last operation must observe exactly what it observes in a fresh process.',
   note='Observations are address-free; equal hints are treated as interchangeable.', ref='5/C14'),
 'C06': dict(engine='E2-snap', technique='explicit-state exploration of all operation histories up to a depth on the real registry in lock step with a declarative model, with snapshot/restore validated against forked processes',
   text='All 31k histories of length <= 3 (4 over a core, thorough) over 36 beartype.claw operations (beartype_all / package(s) / this_package / beartyping enter+exit; equal, different, skipping and invalid configurations; equal, ancestor, descendant, sibling, excluded and invalid names) are replayed on the real registry; after the last step the outcome class, 13 package lookups, path-hook presence, "raising operation leaves the registry unchanged" and "exit restores the pre-enter state" are compared with the model.',
   note='The registry is reset between histories by a harness snapshot of claw_state + sys.path_hooks; that discipline is cross-checked against forked processes on every depth-1 and sampled depth-2 history each run.', ref='5/C06'),
 'C15': dict(engine='E3-sched', technique='stateless model checking of real threads under a controlled scheduler: every interleaving with at most k preemptions at line granularity inside shared-state functions (iterative preemption bounding)',
   text='10 scenarios of 2-3 real threads (TypeHint / BeartypeConf singletons, checks and decorations over fresh shared hints, package registrations and beartyping() against lookups, pooled scratch objects) run under a settrace baton scheduler; scheduling points are every line of the 61 mechanically inventoried shared-state functions and every lock acquire (the 7 lock objects beartype owns are replaced by cooperative locks at run time); all schedules with <= 1 preemption (quick) / <= 2 (thorough) are executed; results must equal a sequential outcome, singletons must be identical, no exception, no deadlock.',
   note='Assumes GIL atomicity of a source line that calls no inventoried function, and that functions outside the inventory touch only thread-local or immutable state; free-threaded builds and more than 3 threads are not explored.', ref='5/C15'),
 'C04': dict(engine='E1-enum', technique='bounded-exhaustive enumeration of signatures x call shapes with CPython binding of an undecorated twin as reference',
   text='Every signature with 0-1 (quick) / 0-2 (thorough) parameters of each of the three named kinds plus optional *args/**kwargs, annotated or not, with every legal default placement (defaults are wrong-typed sentinels) is decorated and called with every call shape (positional count 0..P+2 x keyword subsets over parameter names and a surplus name x all-good / one-slot-str / one-slot-None values) under returning and raising bodies; binding, rejection, blamed parameter, run count, argument identity and result identity are compared with the undecorated twin.',
   note='CPython itself decides binding (inspect.signature.bind is not used); annotation is int throughout.', ref='5/C04'),
 'C08': dict(engine='E1-enum', technique='bounded-exhaustive enumeration of protocol operation sequences on decorated vs undecorated generator / async-generator / coroutine objects in lock step',
   text='114 programs (15 generator bodies as sync and async generators, 3 suspending async bodies, 6 coroutine bodies, each with unannotated and annotated returns) x every sequence of <= 3 (5 thorough) protocol operations out of 8-9 (incl. falsy sent values and throwing the stop exceptions) are executed in lock step on fresh objects from the decorated and the undecorated function, driven by hand without an event loop; results, exception class/args/cause, per-object side-effect logs, suspension logs and finalisation are compared, the inspect kind is compared (also for 12 functools.wraps wrappers whose kind differs from the wrapped function), and wrongly typed coroutine results must raise the return violation.',
   note='Bodies that yield while handling GeneratorExit are excluded as the property says; gc is disabled during a sequence.', ref='5/C08'),
 'C13': dict(engine='E1-enum', technique='bounded-exhaustive enumeration of class programs built three ways from one source (plain, class-decorated, member-decorated) and compared call for call',
   text='376 (quick) class programs - every combination of <= 2 (3 thorough) members out of 11 kinds (plain/class/static methods, properties, functools.wraps closures, unannotated, @no_type_check, string hints naming function-local classes or the class itself) x base class x dataclass x module-level / function-local, and classes nested 1-3 deep with methods at every level - are built plain, with @beartype on the class statement, with beartype(C) after the fact and with @beartype on every member; outcomes of good and bad calls through instance and class, descriptor kinds, names/docs/signatures/attributes, __wrapped__, inherited members, idempotence and the identity cases (also under python -O / -OO in child interpreters) are compared.',
   note='Equivalence is judged on outcome classes, not message text; descriptor objects may be rebuilt around identical functions on re-decoration.', ref='5/C13'),
 'C09': dict(engine='E1-enum', technique='bounded-exhaustive enumeration of container hint shapes x fillings x sizes with counting containers; differential comparison of protocol-call vectors across sizes',
   text='51 container-bearing hint shapes (16 container families, 2-3 level nestings, Optional, fixed tuples with a conforming container beside an offender) are checked with counting containers of sizes 1..64 (1024 thorough) at every level, under 5 fillings, 3 draws and 3 entry points; within each (shape, filling, draw, entry point, verdict) group the complete per-level vector of protocol calls must be identical for all sizes, is_bearable item reads per level are bounded, and 6 kinds of non-collection iterables are never iterated under 7 hints.',
   note='Counts protocol calls made on instrumented containers, not time; sizes above the largest explored are extrapolation.', ref='5/C09'),
 'C10': dict(engine='E1-enum', technique='bounded-exhaustive enumeration of hints x spy subjects x contents x draws x entry points with method-call logs and before/after snapshots',
   text='68 hints of the iterable / iterator / generator / async / container / collection / mapping families (plain and wrapped in Optional, Union, list, dict, tuple, Iterable) x 22 spy subject kinds (generators, one-shot iterators with and without __len__/__contains__, defaultdicts, counting builtin and abc containers, async iterators, views) x 5 contents x draws x 3 entry points: no subject iterator is advanced or consumed, contents and defaultdict keys are unchanged, only read-only protocol methods are invoked (repr only on rejection), and the wrapped callable receives and returns the object the caller passed.',
   note='One-shot objects that structurally claim to be Collections are only used with Iterator/Generator hints.', ref='5/C10'),
}
NOT_YET = {}
for i in range(1, 21):
    pid = f'C{i:02d}'
    if pid not in CHECKS:
        NOT_YET[pid] = 'check not built yet in this round (planned: see DESIGN.md section 5); listed here until its check has been shown to detect a seeded defect'

def main():
    man = {
      'version': 1,
      'setup_cmd': 'cd /verif && /venv/bin/python -m compileall -q bearmc >/dev/null; PYTHONPATH=/repo:/verif /venv/bin/python -m bearmc.selftest',
      'hooks': {'guard': 'BEARTYPE_VERIF', 'enable': 'no source hooks are needed: checks import /repo working tree as is (PYTHONPATH=/repo) and own nondeterminism through module attributes at run time',
                'baseline_off_cmd': BASE_CMD, 'source_commits': [], 'add_only': True},
      'engines': [
        {'name': 'E3-sched', 'path': 'bearmc/sched.py', 'serves_properties': sorted(k for k, v in CHECKS.items() if v['engine'] == 'E3-sched'), 'kind_free_text': 'controlled thread scheduler (sys.settrace baton + cooperative locks), CHESS-style preemption-bounded DFS over schedules of the real code'},
        {'name': 'E2-snap', 'path': 'bearmc/snap.py', 'serves_properties': sorted(k for k, v in CHECKS.items() if v['engine'] == 'E2-snap'), 'kind_free_text': 'explicit-state search over histories where a state is a forked process of the real implementation'},
        {'name': 'E1-enum', 'path': 'bearmc/hintenum.py', 'serves_properties': sorted(k for k, v in CHECKS.items() if v['engine'] == 'E1-enum'), 'kind_free_text': 'bounded-exhaustive grammar enumeration against reference models, sharded over 16 forked workers'},
      ],
      'checks': [], 'not_applicable': [{'property_id': k, 'reason': v} for k, v in sorted(NOT_YET.items())],
      'notes': 'All checks: ./check <id> --tier quick|thorough [--replay file]; VERIF_SEED rotates don\'t-care choices only. BEARMC_REPO=<dir> points the harness at another checkout (used for seeded-defect runs in scratch worktrees).',
    }
    for pid in sorted(CHECKS):
        c = CHECKS[pid]
        man['checks'].append({
          'property_id': pid, 'quick_cmd': f'./check {pid} --tier quick', 'thorough_cmd': f'./check {pid} --tier thorough',
          'evidence_file': f'/verif/evidence/{pid}.json', 'replay_cmd_template': f'./check {pid} --replay {{path}}',
          'engine': c['engine'], 'technique': c['technique'],
          'level_claimed': {'category': 'model_checking', 'text': c['text'], 'design_ref': 'DESIGN.md section ' + c['ref']},
          'level_note': c['note'],
        })
    with open(os.path.join(HERE, 'MANIFEST.json'), 'w') as f:
        json.dump(man, f, indent=1)
    print('wrote MANIFEST.json:', len(man['checks']), 'checks,', len(man['not_applicable']), 'not_applicable')

if __name__ == '__main__':
    main()
