"""Runner: tiers, seeds, worker pool, evidence writer, VIOLATION / KNOWN-FINDING
protocol, replay files.  See DESIGN.md section 2 ("Runner and interface").

A check module ``bearmc.checks.cXX`` exposes

    PROPERTY = 'Cxx'
    def run(ctx) -> None          # explores; calls ctx.violation(...) / ctx.cover(...)
    def replay(ctx, data) -> None # optional: re-run one recorded case

The runner re-executes itself under /venv/bin/python with a scrubbed
environment so that nothing depends on the caller's shell.
"""
from __future__ import annotations

import hashlib
import importlib
import json
import os
import re
import subprocess
import sys
import time
import traceback

VERIF = os.path.dirname(os.path.dirname(os.path.abspath(__file__)))
REPO = os.environ.get('BEARMC_REPO', '/repo')
PY = '/venv/bin/python'
NPROC = int(os.environ.get('BEARMC_NPROC', '0')) or min(16, os.cpu_count() or 1)

LEVEL = 'model_checking'


# ---------------------------------------------------------------------------
# Self re-execution with an owned environment.
# ---------------------------------------------------------------------------
def _clean_env(seed: int) -> dict:
    env = {
        'PATH': os.environ.get('PATH', '/usr/bin:/bin'),
        'HOME': os.environ.get('HOME', '/root'),
        'LANG': 'C.UTF-8',
        'PYTHONHASHSEED': str(seed % 1000),
        'PYTHONDONTWRITEBYTECODE': '1',
        'PYTHONPATH': REPO + os.pathsep + VERIF,
        'PYTHONWARNINGS': '',
        'BEARMC_CHILD': '1',
        'BEARMC_REPO': REPO,
        'VERIF_SEED': str(seed),
        'TMPDIR': os.environ.get('TMPDIR', '/tmp'),
    }
    for k in ('BEARMC_NPROC', 'VERIF_TIER', 'BEARMC_DEBUG', 'BEARMC_LIMIT'):
        if k in os.environ:
            env[k] = os.environ[k]
    return env


def reexec_if_needed(argv):
    if os.environ.get('BEARMC_CHILD') == '1':
        return
    try:
        seed = int(os.environ.get('VERIF_SEED', '0') or 0)
    except ValueError:
        seed = int(hashlib.sha1(os.environ['VERIF_SEED'].encode()).hexdigest()[:8], 16)
    env = _clean_env(seed)
    os.execve(PY, [PY, '-X', 'faulthandler', '-m', 'bearmc.runner'] + list(argv), env)


# ---------------------------------------------------------------------------
# Context handed to checks.
# ---------------------------------------------------------------------------
class Ctx:
    def __init__(self, prop: str, tier: str, seed: int):
        self.prop = prop
        self.tier = tier
        self.seed = seed
        self.quick = tier == 'quick'
        self.t0 = time.time()
        self.coverage: dict = {}
        self.assumptions: list = []
        self.violations: dict = {}      # signature -> dict(what=, replay=, count=)
        self.notes: list = []
        self.nproc = NPROC

    # -- coverage -----------------------------------------------------------
    def cover(self, **kw):
        """Set / accumulate coverage keys (ints are added, lists extended up to 12
        items, sets united, everything else overwritten)."""
        for k, v in kw.items():
            old = self.coverage.get(k)
            if isinstance(v, bool) or old is None:
                self.coverage[k] = v
            elif isinstance(v, int) and isinstance(old, int):
                self.coverage[k] = old + v
            elif isinstance(v, list) and isinstance(old, list):
                for item in v:
                    if len(old) < 12 and item not in old:
                        old.append(item)
            elif isinstance(v, dict) and isinstance(old, dict):
                for kk, vv in v.items():
                    if isinstance(vv, int) and isinstance(old.get(kk), int):
                        old[kk] += vv
                    else:
                        old[kk] = vv
            else:
                self.coverage[k] = v

    def assume(self, *texts):
        for t in texts:
            if t not in self.assumptions:
                self.assumptions.append(t)

    # -- violations ---------------------------------------------------------
    def violation(self, signature: str, what: str, replay: dict | None = None):
        v = self.violations.get(signature)
        if v is None:
            self.violations[signature] = dict(what=what, replay=replay or {}, count=1)
        else:
            v['count'] += 1

    def merge(self, part: dict):
        """Merge a worker's partial result: {'cover': {...}, 'violations': [(sig, what, replay), ...]}"""
        self.cover(**part.get('cover', {}))
        for sig, what, rep in part.get('violations', ()):
            self.violation(sig, what, rep)

    # -- parallel map ---------------------------------------------------------
    def pmap(self, fn, items, chunksize: int = 1, fresh: bool = False):
        """Unordered parallel map over forked workers.  ``fn`` must be a module
        level function; whatever state the parent has set up before the call
        (scripted draw, replaced locks) is inherited through fork."""
        items = list(items)
        if self.nproc <= 1 or len(items) <= 1:
            for it in items:
                yield fn(it)
            return
        if fresh:
            yield from fork_map(fn, items, self.nproc)
            return
        import multiprocessing as mp
        mpctx = mp.get_context('fork')
        with mpctx.Pool(min(self.nproc, len(items))) as pool:
            for res in pool.imap_unordered(fn, items, chunksize):
                yield res

    def elapsed(self):
        return time.time() - self.t0


def fork_map(fn, items, nproc):
    """Unordered map with ONE forked child per item, forked from this (single-threaded) process, so that every
    item starts from the parent's exact state (same heap, same id()s, cold beartype caches).  Results come back
    pickled through a pipe.  A child that dies without answering is a hard harness error."""
    import pickle
    import select
    items = list(items)
    pending = list(reversed(list(enumerate(items))))
    running = {}      # read fd -> (pid, index, buffer)
    while pending or running:
        while pending and len(running) < nproc:
            idx, it = pending.pop()
            r, w = os.pipe()
            pid = os.fork()
            if pid == 0:
                code = 0
                try:
                    os.close(r)
                    try:
                        payload = pickle.dumps(('ok', fn(it)))
                    except BaseException:
                        payload = pickle.dumps(('err', traceback.format_exc()))
                    with os.fdopen(w, 'wb') as f:
                        f.write(payload)
                except BaseException:
                    code = 3
                finally:
                    os._exit(code)
            os.close(w)
            running[r] = (pid, idx, bytearray())
        ready, _, _ = select.select(list(running), [], [])
        for r in ready:
            pid, idx, buf = running[r]
            chunk = os.read(r, 1 << 20)
            if chunk:
                buf.extend(chunk)
                continue
            os.close(r)
            del running[r]
            os.waitpid(pid, 0)
            if not buf:
                raise RuntimeError(f'forked worker for item {idx} died without a result')
            kind, val = pickle.loads(bytes(buf))
            if kind == 'err':
                raise RuntimeError(f'forked worker for item {idx} raised:\n{val}')
            yield val


# ---------------------------------------------------------------------------
# Known findings.
# ---------------------------------------------------------------------------
def load_known(prop: str):
    path = os.path.join(VERIF, 'known_findings.json')
    try:
        with open(path) as f:
            data = json.load(f)
    except FileNotFoundError:
        return {}
    out = {}
    for e in data.get('findings', []):
        if e.get('property') == prop and e.get('status') == 'known':
            out[e['signature']] = e
    return out


def _sig_matches(known: dict, sig: str):
    """A known finding lists an exact signature, or a signature ending in '*'
    that is a literal prefix (used when one defect shows up under a family of
    inputs that differ only in a don't-care component)."""
    if sig in known:
        return known[sig]
    for k, e in known.items():
        if k.endswith('*') and sig.startswith(k[:-1]):
            return e
    return None


# ---------------------------------------------------------------------------
# Evidence.
# ---------------------------------------------------------------------------
def repo_state():
    try:
        head = subprocess.run(['git', '-C', REPO, 'rev-parse', 'HEAD'], capture_output=True, text=True).stdout.strip()
        dirty = bool(subprocess.run(['git', '-C', REPO, 'status', '--porcelain', '--untracked-files=no'],
                                    capture_output=True, text=True).stdout.strip())
    except Exception:
        head, dirty = '?', None
    return {'head': head, 'dirty': dirty, 'path': REPO}


def write_evidence(ctx: Ctx, n_viol: int, n_known: int):
    cov = dict(ctx.coverage)
    cov.setdefault('evaluations', 0)
    cov.setdefault('distinct_nontrivial', 0)
    cov.setdefault('rule', '')
    cov.setdefault('samples', [])
    cov.setdefault('exhaustive', False)
    cov['repo'] = repo_state()
    cov['known_findings_reproduced'] = n_known
    cov['notes'] = ctx.notes
    for k, v in list(cov.items()):
        if isinstance(v, set):
            cov[k] = sorted(v)
    ev = {
        'property_id': ctx.prop,
        'tier': ctx.tier,
        'seed': ctx.seed,
        'level': LEVEL,
        'coverage': cov,
        'assumptions': ctx.assumptions,
        'wall_s': round(ctx.elapsed(), 3),
        'violations': n_viol,
    }
    # evidence describes /repo itself; a run against a scratch tree (BEARMC_REPO, seeded defects) must not overwrite it
    d = os.path.join(VERIF, 'evidence') if os.path.realpath(REPO) == '/repo' else os.path.join(REPO, '.bearmc-evidence')
    os.makedirs(d, exist_ok=True)
    tmp = os.path.join(d, f'.{ctx.prop}.json.tmp')
    with open(tmp, 'w') as f:
        json.dump(ev, f, indent=1, sort_keys=True, default=repr)
    os.replace(tmp, os.path.join(d, f'{ctx.prop}.json'))


def _slug(s: str) -> str:
    s2 = re.sub(r'[^A-Za-z0-9_.-]+', '_', s)[:60].strip('_')
    return s2 + '-' + hashlib.sha1(s.encode()).hexdigest()[:8]


def write_replay(ctx: Ctx, sig: str, v: dict) -> str:
    d = os.path.join(VERIF, 'replay')
    os.makedirs(d, exist_ok=True)
    path = os.path.join(d, f'{ctx.prop}-{_slug(sig)}.json')
    rec = {'property': ctx.prop, 'signature': sig, 'what': v['what'], 'count': v['count'],
           'tier': ctx.tier, 'seed': ctx.seed, 'repo': repo_state(), 'case': v['replay']}
    with open(path, 'w') as f:
        json.dump(rec, f, indent=1, default=repr)
    script = v['replay'].get('script') if isinstance(v['replay'], dict) else None
    if script:
        with open(path[:-5] + '.py', 'w') as f:
            f.write('# explorer-free replay of ' + sig + '\n# run: PYTHONPATH=/repo /venv/bin/python ' +
                    os.path.basename(path[:-5] + '.py') + '\n' + script)
    return path


# ---------------------------------------------------------------------------
# Main.
# ---------------------------------------------------------------------------
def main(argv=None):
    argv = list(sys.argv[1:] if argv is None else argv)
    reexec_if_needed(argv)
    import argparse
    ap = argparse.ArgumentParser(prog='check')
    ap.add_argument('prop')
    ap.add_argument('--tier', choices=['quick', 'thorough'], default=None)
    ap.add_argument('--replay', default=None)
    a = ap.parse_args(argv)
    tier = a.tier or os.environ.get('VERIF_TIER') or 'quick'
    if tier not in ('quick', 'thorough'):
        tier = 'quick'
    seed = int(os.environ.get('VERIF_SEED', '0') or 0)
    prop = a.prop.upper()

    # The code under test must be REPO's working tree.
    if sys.path[0] != REPO:
        sys.path.insert(0, REPO)
    import warnings
    warnings.resetwarnings()
    import beartype
    assert os.path.abspath(beartype.__file__).startswith(os.path.abspath(REPO) + os.sep), (
        f'beartype imported from {beartype.__file__}, not {REPO}')

    mod = importlib.import_module(f'bearmc.checks.{prop.lower()}')
    ctx = Ctx(prop, tier, seed)

    if a.replay:
        with open(a.replay) as f:
            rec = json.load(f)
        mod.replay(ctx, rec['case'])
        if ctx.violations:
            for sig, v in ctx.violations.items():
                print(f'VIOLATION property={prop} replay={a.replay}  # {sig}: {v["what"]}')
            return 1
        print(f'replay of {a.replay}: no violation reproduced')
        return 0

    try:
        mod.run(ctx)
    except Exception as exc:
        tb = traceback.format_exc()
        traceback.print_exc()
        ctx.notes.append('exploration aborted: ' + tb[-800:])
        explicit = isinstance(exc, AssertionError) and str(exc).startswith(('harness', 'only '))
        if explicit:
            # a self-check of the machinery failed (scheduler hang, replay divergence, lock replacement ...): not a statement about the code
            print(f'HARNESS-ERROR property={prop}: exploration aborted by a failed self-check of the harness')
            try:
                write_evidence(ctx, len(ctx.violations), 0)
            except Exception:
                pass
            return 2
        # The exploration is deterministic and completes on the tree it was built against: an uncaught exception means the
        # code under test broke something every execution relies on (e.g. a decorator returned a closure instead of the
        # class).  Reported as a violation with the traceback as replay, never silently.
        sig = f'exploration-aborted:{type(exc).__name__}'
        ctx.violation(sig, f'the exploration was aborted by {type(exc).__name__}: {str(exc)[:200]} -- the code under test no longer behaves as every '
                           f'execution of this check relies on', {'traceback': tb[-3000:]})
        try:
            write_evidence(ctx, len(ctx.violations), 0)
        except Exception:
            pass
        for s2, v in list(ctx.violations.items())[:25]:
            path = write_replay(ctx, s2, v)
            print(f'VIOLATION property={prop} replay={path}  # {s2}: {v["what"][:300]} (x{v["count"]})')
        return 1

    known = load_known(prop)
    n_known = 0
    new = []
    reported_known = set()
    for sig in sorted(ctx.violations):
        v = ctx.violations[sig]
        e = _sig_matches(known, sig)
        if e is not None:
            n_known += 1
            if e['signature'] not in reported_known:
                reported_known.add(e['signature'])
                print(f'KNOWN-FINDING: property={prop} {e["signature"]} -- {e["what"]}')
        else:
            new.append((sig, v))
    stale = [s for s in known if s not in reported_known]
    if stale:
        ctx.notes.append('listed known findings not reproduced in this run (stale or outside this tier): ' + ', '.join(stale))
    write_evidence(ctx, len(new), n_known)
    cov = ctx.coverage
    print(f'[{prop}] tier={tier} seed={seed} evaluations={cov.get("evaluations")} '
          f'states={cov.get("states")} transitions={cov.get("transitions")} '
          f'distinct_nontrivial={cov.get("distinct_nontrivial")} exhaustive={cov.get("exhaustive")} '
          f'violations={len(new)} known={n_known} wall={ctx.elapsed():.1f}s')
    if new:
        for sig, v in new[:25]:
            path = write_replay(ctx, sig, v)
            print(f'VIOLATION property={prop} replay={path}  # {sig}: {v["what"][:300]} (x{v["count"]})')
        if len(new) > 25:
            print(f'... {len(new) - 25} further distinct violation signatures suppressed')
        return 1
    # vacuity gate
    if not cov.get('evaluations') or (cov.get('distinct_nontrivial') or 0) < 2:
        print(f'HARNESS-ERROR property={prop}: vacuous run (evaluations={cov.get("evaluations")}, '
              f'distinct_nontrivial={cov.get("distinct_nontrivial")})')
        return 2
    return 0


if __name__ == '__main__':
    sys.exit(main())
