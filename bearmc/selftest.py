"""setup_cmd self-test: reference models against their truth tables; engines smoke test."""
import sys


def main():
    from bearmc.model import hintsem, objs
    n1 = hintsem.selftest()
    n2 = objs.selftest()
    import beartype
    print(f'bearmc selftest ok: hintsem {n1} rows, objs {n2} objects, beartype at {beartype.__file__}')
    return 0


if __name__ == '__main__':
    sys.exit(main())
