"""Driving the real beartype: the scripted sampler draw (DESIGN section 3), the
configuration alphabet and the entry points of C01 / C02 / C03 / C18.
"""
from __future__ import annotations

import math
import warnings

# -- scripted draw -------------------------------------------------------------
# Generated wrappers capture the *module attribute* codemain.getrandbits when a
# scope is built (codemain.py: func_wrapper_locals[ARG_NAME_GETRANDBITS] =
# getrandbits); rebinding it before any hint is processed makes the draw an
# explored environment answer.
DRAW = [0]
CALLS = [0]


def _draw(nbits):
    CALLS[0] += 1
    return DRAW[0]


_installed = False


def install_draw():
    global _installed
    if _installed:
        return
    import beartype._check.code.codemain as cm
    assert hasattr(cm, 'getrandbits'), 'seam codemain.getrandbits vanished: update drive.install_draw'
    cm.getrandbits = _draw
    _installed = True


def residues(maxlen: int, tier: str):
    """Draw values that are exhaustive over all 2**32 draws for containers of length <= maxlen:
    the generated code only ever computes r % len(x), a function of r mod lcm(1..maxlen)."""
    l = 1
    for i in range(2, maxlen + 1):
        l = l * i // math.gcd(l, i)
    rs = list(range(l))
    top = [2 ** 32 - l + k for k in range(l)]
    if tier == 'quick':
        return rs + [2 ** 32 - 1]
    return rs + top


class WarnViolation(UserWarning):
    """Harness warning class used for violation_type=<Warning> configurations."""


class ExcViolation(Exception):
    """Harness exception class used for violation_type=<Exception> configurations."""


def confs():
    from beartype import BeartypeConf, BeartypeStrategy
    return {
        'default': BeartypeConf(),
        'nonrandom': BeartypeConf(is_random=False),
        'On': BeartypeConf(strategy=BeartypeStrategy.On),
        'tower': BeartypeConf(is_pep484_tower=True),
        'warn': BeartypeConf(violation_type=WarnViolation),
    }


def make_identity(hint, conf):
    """@beartype(conf=conf) def f(a: H) -> H: return a"""
    from beartype import beartype

    def ident(a):
        return a
    ident.__annotations__ = {'a': hint, 'return': hint}
    return beartype(conf=conf)(ident)


def make_param_only(hint, conf):
    from beartype import beartype

    def fparam(a):
        return None
    fparam.__annotations__ = {'a': hint}
    return beartype(conf=conf)(fparam)


def make_return_only(hint, conf):
    from beartype import beartype

    def fret(a):
        return a
    fret.__annotations__ = {'return': hint}
    return beartype(conf=conf)(fret)


PRELUDE = '''import typing, collections, collections.abc as cabc, warnings
import beartype._check.code.codemain as _cm
DRAW = [0]
_cm.getrandbits = lambda n: DRAW[0]          # scripted sampler draw
from beartype import beartype, BeartypeConf, BeartypeStrategy
from beartype.door import is_bearable, die_if_unbearable, TypeHint
from beartype.vale import Is, IsAttr, IsEqual, IsInstance, IsSubclass
import sys; sys.path.insert(0, '/verif')
from bearmc.model.universe import *
from bearmc.model.valemodel import FUNCS
from bearmc.drive import WarnViolation, ExcViolation
'''

CONF_SRC = {
    'default': 'BeartypeConf()', 'nonrandom': 'BeartypeConf(is_random=False)',
    'On': 'BeartypeConf(strategy=BeartypeStrategy.On)', 'tower': 'BeartypeConf(is_pep484_tower=True)',
    'warn': 'BeartypeConf(violation_type=WarnViolation)',
}
