"""E2 -- fork-snapshot explorer for histories (DESIGN section 2).

A *state* is a process.  Expanding a node is os.fork(): the child applies one operation to the real, inherited
process state (beartype's memo tables, registries, id()-derived names ...), reports its observation through a pipe
and recursively forks for deeper operations.  Every history therefore starts from the bit-identical pristine state of
the (single-threaded) template process, and the fresh-interpreter answer needed by differential oracles is simply the
observation at depth 1.
"""
from __future__ import annotations

import os
import pickle
import traceback


def _read_all(fd):
    chunks = []
    while True:
        b = os.read(fd, 1 << 20)
        if not b:
            break
        chunks.append(b)
    os.close(fd)
    return b''.join(chunks)


def dfs(apply, n_ops, depth, prefix=(), allowed=None, ctx=None):
    """Explore every history prefix + (op_1 .. op_k), k <= depth, below the current process state.

    apply(op_index, history_so_far, ctx) -> (observation, new_ctx) runs in the forked child, mutating real state; the
    observation must be picklable and must not mention process-specific values (addresses).  ``ctx`` is harness state
    carried along a history (e.g. the results of earlier operations, which live only in that child).
    ``allowed(history) -> iterable of op indices`` restricts successors (default: all).
    Returns [(history, observation), ...] for all explored nodes in DFS order.
    """
    out = []
    ops = range(n_ops) if allowed is None else allowed(prefix)
    for op in ops:
        r, w = os.pipe()
        pid = os.fork()
        if pid == 0:
            code = 0
            try:
                os.close(r)
                try:
                    hist = prefix + (op,)
                    obs, ctx2 = apply(op, prefix, ctx)
                    sub = [(hist, obs)]
                    if depth > 1:
                        sub += dfs(apply, n_ops, depth - 1, hist, allowed, ctx2)
                    payload = pickle.dumps(('ok', sub))
                except BaseException:
                    payload = pickle.dumps(('err', traceback.format_exc()))
                with os.fdopen(w, 'wb') as f:
                    f.write(payload)
            except BaseException:
                code = 3
            finally:
                os._exit(code)
        os.close(w)
        data = _read_all(r)
        os.waitpid(pid, 0)
        if not data:
            raise RuntimeError(f'snapshot child for history {prefix + (op,)} died without a result')
        kind, val = pickle.loads(data)
        if kind == 'err':
            raise RuntimeError(f'snapshot child for history {prefix + (op,)} raised:\n{val}')
        out += val
    return out


def selftest():
    """The child sees the parent's state; the parent never sees the child's mutation; histories are independent."""
    box = {'v': 0}

    def apply(op, hist, ctx):
        box['v'] = box['v'] * 10 + (op + 1)
        return box['v'], None
    res = dict(dfs(apply, 2, 2))
    assert res == {(0,): 1, (0, 0): 11, (0, 1): 12, (1,): 2, (1, 0): 21, (1, 1): 22}, res
    assert box['v'] == 0
    return len(res)
