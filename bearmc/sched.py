"""E3 -- controlled scheduler for real threads (DESIGN section 2).

sys.settrace hands a per-thread semaphore *baton* around: exactly one harness thread runs.  At every scheduling point (a
'line' event inside an inventoried shared-state function of beartype, or an acquire of a cooperative lock) the running
thread asks the explorer whether to continue or to yield to another enabled thread.  Exploration is iterative
preemption bounding (CHESS): replay a prefix of choices, take choice 0 (keep running) afterwards, then branch at every
point whose preemption count stays within the bound.

Real locks would hang a cooperative scheduler, so every lock object beartype owns is replaced, at run time and from the
outside, by a cooperative lock (acquire = scheduling point; a thread that cannot acquire is *disabled* until release;
"no enabled thread" = deadlock).
"""
from __future__ import annotations

import ast
import gc
import os
import sys
import threading
import _thread

REPO = os.environ.get('BEARMC_REPO', '/repo')
BT = os.path.join(REPO, 'beartype') + os.sep


class Deadlock(Exception):
    pass


class Horizon(Exception):
    pass


class Divergence(Exception):
    pass


class Hang(Exception):
    pass


# ---------------------------------------------------------------------------------------------------------------
# Inventory of shared-state functions (mechanical: AST scan).
# ---------------------------------------------------------------------------------------------------------------
_MUTABLE_CALLS = {'dict', 'list', 'set', 'defaultdict', 'OrderedDict', 'deque', 'KeyPool', 'CacheUnboundedStrong', 'CacheLruStrong',
                  'FixedList', 'WeakValueDictionary', 'WeakKeyDictionary', 'ModuleNameToBeartypeConf', 'BeartypeClawState',
                  'PackagesTrieWhitelist', 'PackagesTrieBlacklist'}
_SHARED_CALL_PREFIXES = ('acquire_', 'release_', 'cache_or_get', 'acquire', 'release')


def inventory():
    """{filename: set(line numbers)} of all lines inside functions that read or write a module-level mutable container
    of their module, or call a pool / cache primitive (acquire_*, release_*, cache_or_get_*), or take a lock."""
    inv = {}
    nfunc = 0
    for root, _, files in os.walk(BT):
        for fn in files:
            if not fn.endswith('.py'):
                continue
            path = os.path.join(root, fn)
            try:
                with open(path, encoding="utf-8") as fh:
                    tree = ast.parse(fh.read())
            except SyntaxError:
                continue
            shared = set()
            for node in tree.body:
                targets = []
                if isinstance(node, ast.Assign):
                    targets, val = node.targets, node.value
                elif isinstance(node, ast.AnnAssign) and node.value is not None:
                    targets, val = [node.target], node.value
                else:
                    continue
                mutable = isinstance(val, (ast.Dict, ast.List, ast.Set, ast.DictComp, ast.ListComp, ast.SetComp)) or (
                    isinstance(val, ast.Call) and isinstance(val.func, (ast.Name, ast.Attribute)) and
                    (val.func.id if isinstance(val.func, ast.Name) else val.func.attr) in _MUTABLE_CALLS)
                if mutable:
                    for t in targets:
                        if isinstance(t, ast.Name):
                            shared.add(t.id)
            lines = set()
            for node in ast.walk(tree):
                if not isinstance(node, (ast.FunctionDef, ast.AsyncFunctionDef)):
                    continue
                hit = False
                for sub in ast.walk(node):
                    if isinstance(sub, ast.Name) and sub.id in shared:
                        hit = True
                    elif isinstance(sub, ast.Call):
                        f = sub.func
                        name = f.id if isinstance(f, ast.Name) else f.attr if isinstance(f, ast.Attribute) else ''
                        if name.startswith(_SHARED_CALL_PREFIXES):
                            hit = True
                    elif isinstance(sub, ast.With):
                        for item in sub.items:
                            src = ast.dump(item.context_expr)
                            if 'lock' in src.lower():
                                hit = True
                    elif isinstance(sub, ast.Attribute) and sub.attr in ('conf_if_hooked', '_hint_to_wrapper', '_key_to_value'):
                        hit = True
                    if hit:
                        break
                if hit:
                    nfunc += 1
                    end = getattr(node, 'end_lineno', node.lineno)
                    start = min([d.lineno for d in node.decorator_list] + [node.lineno])
                    lines.update(range(start, end + 1))
            if lines:
                inv[path] = lines
    inv['__functions__'] = nfunc
    return inv


# ---------------------------------------------------------------------------------------------------------------
# Cooperative locks.
# ---------------------------------------------------------------------------------------------------------------
class CoopLock:
    """Drop-in for threading.Lock / RLock under the scheduler; behaves like a plain (re-entrant if asked) lock when no
    scheduler is active (single-threaded phases)."""

    def __init__(self, reentrant):
        self.reentrant = reentrant
        self.owner = None
        self.count = 0

    def acquire(self, blocking=True, timeout=-1):
        s = Scheduler.active
        me = _thread.get_ident()
        if s is None or me not in s.tid_of:
            if self.owner is not None and self.owner != me:
                raise RuntimeError('CoopLock contended outside a scheduled execution')
            if self.owner == me and not self.reentrant:
                raise RuntimeError('non-reentrant CoopLock re-acquired by its owner: real code would self-deadlock')
            self.owner, self.count = me, self.count + 1
            return True
        t = s.tid_of[me]
        s.point(t, kind='lock-acquire')
        while self.owner is not None and self.owner != me:
            if not blocking:
                return False
            s.block(t, self)
        if self.owner == me and not self.reentrant:
            raise Deadlock(f'thread {t} re-acquires a non-reentrant lock it already holds')
        self.owner, self.count = me, self.count + 1
        return True

    def release(self):
        self.count -= 1
        if self.count == 0:
            self.owner = None
            s = Scheduler.active
            if s is not None:
                s.unblock(self)

    __enter__ = acquire

    def __exit__(self, *a):
        self.release()

    def locked(self):
        return self.owner is not None


_LOCK_TYPES = (type(threading.Lock()), type(threading.RLock()))
_replaced = {}


def replace_locks():
    """Replace every lock object owned by beartype (module globals of beartype.* modules, and the lock attributes of
    pool / cache instances found through the garbage collector) by cooperative locks.  Returns the number replaced."""
    n = 0
    for name, mod in list(sys.modules.items()):
        if not (name == 'beartype' or name.startswith('beartype.')) or mod is None:
            continue
        for k, v in list(vars(mod).items()):
            if isinstance(v, _LOCK_TYPES):
                co = _replaced.get(id(v))
                if co is None:
                    co = _replaced[id(v)] = CoopLock(reentrant=isinstance(v, _LOCK_TYPES[1]))
                    co._orig = v
                setattr(mod, k, co)
                n += 1
    for obj in gc.get_objects():
        cls = type(obj)
        if getattr(cls, '__module__', '').startswith('beartype.'):
            for attr in ('_lock', '_thread_lock'):
                try:
                    v = getattr(obj, attr)
                except Exception:
                    continue
                if isinstance(v, _LOCK_TYPES):
                    co = CoopLock(reentrant=isinstance(v, _LOCK_TYPES[1]))
                    co._orig = v
                    try:
                        object.__setattr__(obj, attr, co)
                        n += 1
                    except Exception:
                        pass
    return n


# ---------------------------------------------------------------------------------------------------------------
# The scheduler.
# ---------------------------------------------------------------------------------------------------------------
class Scheduler:
    active = None

    def __init__(self, fns, prefix, inv, horizon=200000, opcode_files=()):
        self.fns = fns
        self.n = len(fns)
        self.prefix = list(prefix)
        self.inv = inv
        self.horizon = horizon
        self.choices = []            # choice taken at each point
        self.points = []             # (n_options, running_still_enabled, label)
        self.sema = [threading.Semaphore(0) for _ in fns]
        self.done = [False] * self.n
        self.blocked = [None] * self.n
        self.results = [None] * self.n
        self.errors = [None] * self.n
        self.tid_of = {}
        self.current = None
        self.steps = 0
        self.fatal = None
        self.finished = threading.Semaphore(0)
        self.opcode_files = opcode_files
        self.trace_log = []
        self.watchdog = 30

    # -- tracing ---------------------------------------------------------------------------------------------
    def _global_trace(self, frame, event, arg):
        if event != 'call':
            return None
        lines = self.inv.get(frame.f_code.co_filename)
        if lines is None or frame.f_code.co_firstlineno not in lines:
            return None
        return self._local_trace

    def _local_trace(self, frame, event, arg):
        if event == 'line':
            t = self.tid_of.get(_thread.get_ident())
            if t is not None and self.fatal is None:
                self.point(t, kind='line', label=(os.path.basename(frame.f_code.co_filename), frame.f_lineno))
        return self._local_trace

    # -- scheduling --------------------------------------------------------------------------------------------
    def _enabled(self):
        return [u for u in range(self.n) if not self.done[u] and self.blocked[u] is None]

    def _choose(self, options, running_enabled, label):
        i = len(self.choices)
        if i < len(self.prefix):
            c = self.prefix[i]
            if c >= len(options):
                raise Divergence(f'replayed choice {c} at point {i} but only {len(options)} options')
        else:
            c = 0
        self.choices.append(c)
        self.points.append((len(options), running_enabled, label))
        return options[c]

    def point(self, t, kind='line', label=None):
        if self.fatal is not None:
            raise self.fatal
        self.steps += 1
        if self.steps > self.horizon:
            self.fatal = Horizon(f'more than {self.horizon} scheduling points')
            self._release_all()
            raise self.fatal
        others = [u for u in self._enabled() if u != t]
        if not others:
            return
        options = [t] + others
        u = self._choose(options, True, label)
        self.trace_log.append((t, label))
        if u != t:
            self._switch(t, u)

    def block(self, t, lock):
        """t cannot proceed until ``lock`` is released: hand the baton to another enabled thread (forced, not a preemption)."""
        self.blocked[t] = lock
        others = self._enabled()
        if not others:
            self.fatal = Deadlock(f'deadlock: thread {t} waits for a lock and no thread is enabled '
                                  f'(blocked: {[i for i, b in enumerate(self.blocked) if b is not None]})')
            self._release_all()
            raise self.fatal
        u = self._choose(others, False, 'blocked')
        self._switch(t, u)

    def unblock(self, lock):
        for u in range(self.n):
            if self.blocked[u] is lock:
                self.blocked[u] = None

    def _switch(self, t, u):
        self.current = u
        self.sema[u].release()
        self.sema[t].acquire()
        if self.fatal is not None:
            raise self.fatal

    def _release_all(self):
        for s in self.sema:
            s.release()
        self.finished.release()

    def _thread_main(self, t):
        self.tid_of[_thread.get_ident()] = t
        self.sema[t].acquire()
        try:
            if self.fatal is None:
                sys.settrace(self._global_trace)
                try:
                    self.results[t] = self.fns[t]()
                finally:
                    sys.settrace(None)
        except BaseException as e:          # noqa
            self.errors[t] = e
        self.done[t] = True
        # a finished thread may still own a cooperative lock only through a bug; waiters stay blocked -> deadlock report
        if self.fatal is None:
            en = self._enabled()
            if en:
                try:
                    u = self._choose(en, False, 'finished')
                except Divergence as e:
                    self.fatal = e
                    self._release_all()
                    return
                self.current = u
                self.sema[u].release()
            elif all(self.done):
                self.finished.release()
            else:
                self.fatal = Deadlock('deadlock: every unfinished thread is blocked on a lock')
                self._release_all()

    def run(self):
        assert Scheduler.active is None
        Scheduler.active = self
        threads = [threading.Thread(target=self._thread_main, args=(t,), daemon=True) for t in range(self.n)]
        try:
            for th in threads:
                th.start()
            # wait until every thread has registered itself
            import time
            while len(self.tid_of) < self.n:
                time.sleep(0.0002)
            try:
                first = self._choose(list(range(self.n)), False, 'start')
            except Divergence as e:
                self.fatal = e
                self._release_all()
                first = None
            if first is not None:
                self.current = first
                self.sema[first].release()
            if not self.finished.acquire(timeout=self.watchdog):
                # A harness thread is stuck outside the scheduler's control (a real lock we failed to replace, or a
                # baton hand-over bug): report where every thread is instead of hanging the check.
                import traceback
                frames = sys._current_frames()
                where = []
                for ident, t in self.tid_of.items():
                    fr = frames.get(ident)
                    where.append(f'thread {t}: ' + (' <- '.join(f'{os.path.basename(f.filename)}:{f.lineno}:{f.name}' for f in reversed(traceback.extract_stack(fr)[-6:])) if fr else 'gone'))
                self.fatal = Hang('execution did not finish within %ss; ' % self.watchdog + ' | '.join(where))
                self._release_all()
            for th in threads:
                th.join(timeout=5)
        finally:
            Scheduler.active = None
        return self


def explore(make_fns, check, inv, bound=1, max_exec=None, on_exec=None):
    """Iterative preemption bounding.  make_fns() -> list of thread bodies over FRESH inputs (called once per execution);
    check(scheduler) judges one finished execution.  Returns statistics."""
    stats = {'executions': 0, 'points_max': 0, 'deadlocks': 0, 'divergences': 0, 'preemption_bound': bound, 'capped': False,
             'distinct_outcomes': set()}
    stack = [[]]
    seen_prefix = set()
    while stack:
        prefix = stack.pop()
        if max_exec is not None and stats['executions'] >= max_exec:
            stats['capped'] = True
            break
        s = Scheduler(make_fns(), prefix, inv)
        s.run()
        stats['executions'] += 1
        stats['points_max'] = max(stats['points_max'], len(s.points))
        if isinstance(s.fatal, Divergence):
            stats['divergences'] += 1
            continue
        if isinstance(s.fatal, Deadlock):
            stats['deadlocks'] += 1
        outcome = check(s)
        stats['distinct_outcomes'].add(outcome)
        if on_exec:
            on_exec(s)
        # branch
        pre = 0
        costs = []
        for i, (nopt, running_enabled, label) in enumerate(s.points):
            costs.append(pre)
            if running_enabled and s.choices[i] != 0:
                pre += 1
        for i in range(len(s.points) - 1, len(prefix) - 1, -1):
            nopt, running_enabled, label = s.points[i]
            cost = costs[i] + (1 if running_enabled else 0)
            if cost > bound:
                continue
            for alt in range(1, nopt):
                if alt == s.choices[i]:
                    continue
                stack.append(s.choices[:i] + [alt])
    return stats


def selftest():
    """A lost update (unlocked read-modify-write) must be found with one preemption; the locked version must pass."""
    import types
    box = {'v': 0}
    src = 'def incr(box, lock):\n    if lock: lock.acquire()\n    t = box["v"]\n    t = t + 1\n    box["v"] = t\n    if lock: lock.release()\n'
    fname = os.path.join(BT, '__bearmc_selftest__.py')
    ns = {}
    exec(compile(src, fname, 'exec'), ns)
    inv = {fname: set(range(1, 10))}
    found = []

    def run(lock):
        def make():
            box['v'] = 0
            return [lambda: ns['incr'](box, lock), lambda: ns['incr'](box, lock)]

        def check(s):
            if box['v'] != 2 or s.fatal:
                found.append((box['v'], s.choices[:]))
            return box['v']
        return explore(make, check, inv, bound=1)
    st = run(None)
    assert found, 'scheduler self-test: lost update not found'
    n_bad = len(found)
    del found[:]
    st2 = run(CoopLock(False))
    assert not found, ('scheduler self-test: locked increment reported', found)
    return st['executions'], n_bad, st2['executions']
