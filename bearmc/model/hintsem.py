"""Reference semantics of type hints as two recursive predicates over
(hint term, object):  sat_all  (published meaning at full depth) and  sat_some
(weakest reading under which C02 promises rejection).  See DESIGN.md section 4.

Hint terms (nested tuples, hashable):
    ('a', name)                     atom, see ATOMS
    ('u', spelling, t1, t2, ...)    union; spelling 'U' typing.Union, 'B' bar operator, 'O' Optional (one member)
    ('lit', vsrc1, vsrc2, ...)      Literal over value sources (keys of LITVALS)
    ('tf', sp, t1, ..., tn)         fixed tuple, n >= 0; sp 'b' builtin / 't' typing
    ('tv', sp, t)                   variadic tuple
    ('c1', family, t)               single-argument container family (C1)
    ('c2', family, k, v)            two-argument family (C2)
    ('ty', sp, t)                   type[t] / Type[t]
    ('ann', t, v1, ..., vn)         Annotated[t, validators...] (valemodel terms)
    ('g', gname, t)                 user generic G[t] / GL[t]
The model never parses typing objects: hints are *built from* terms.
"""
from __future__ import annotations

import collections
import collections.abc as cabc
import typing

from . import universe as U
from . import valemodel as VM

# ---------------------------------------------------------------------------
# Atoms: name -> (hint object, predicate(x, tower))
# ---------------------------------------------------------------------------
NoneType = type(None)


def _inst(*cls):
    return lambda x, tower=False: isinstance(x, cls)


ATOMS = {
    'int': (int, _inst(int)),
    'bool': (bool, _inst(bool)),
    'str': (str, _inst(str)),
    'float': (float, lambda x, tower=False: isinstance(x, (float, int) if tower else float)),
    'complex': (complex, lambda x, tower=False: isinstance(x, (complex, float, int) if tower else complex)),
    'bytes': (bytes, _inst(bytes)),
    'none': (None, lambda x, tower=False: x is None),
    'NoneType': (NoneType, lambda x, tower=False: x is None),
    'object': (object, lambda x, tower=False: True),
    'any': (typing.Any, lambda x, tower=False: True),
    'K': (U.K, _inst(U.K)),
    'K2': (U.K2, _inst(U.K2)),
    'Other': (U.Other, _inst(U.Other)),
    'E': (U.E, _inst(U.E)),
    'N': (U.N, _inst(int)),
    'IE': (U.IE, _inst(U.IE)),
    'NL': (U.NL, lambda x, tower=False: isinstance(x, list) and all(isinstance(i, int) for i in x),
           lambda x, tower=False: isinstance(x, list) and (not x or any(isinstance(i, int) for i in x))),
    'TL': (U.TL, lambda x, tower=False: isinstance(x, list) and all(isinstance(i, int) for i in x),
           lambda x, tower=False: isinstance(x, list) and (not x or any(isinstance(i, int) for i in x))),
    'TU': (U.TU, _inst(int, str)),
    'DupA': (U.DupA, _inst(U.DupA)),
    'DupB': (U.DupB, _inst(U.DupB)),
    'TSi': (U.TSi, _inst(int)),
    'TSs': (U.TSs, _inst(str)),
    'NF': (U.NF, lambda x, tower=False: isinstance(x, (float, int) if tower else float)),
    'TF': (U.TF, lambda x, tower=False: isinstance(x, (float, int) if tower else float)),
    'T': (U.T, lambda x, tower=False: True),
    'TB': (U.TB, _inst(int)),
    'TC': (U.TC, _inst(int, str)),
    'P': (U.P, lambda x, tower=False: isinstance(x, U.P)),
    'G': (U.G, _inst(U.G)),
    'GL': (U.GL, _inst(U.GL)),
    # hint kinds that beartype reduces to shallower checks: (hint, published meaning[, weakest reading])
    'Hashable': (cabc.Hashable, _inst(cabc.Hashable)),
    'Sized': (typing.Sized, _inst(cabc.Sized)),
    'Callable_': (cabc.Callable, lambda x, tower=False: callable(x)),
    'LStr': (typing.LiteralString, _inst(str)),
    'SupportsInt': (typing.SupportsInt, _inst(typing.SupportsInt)),
    'AnyStr': (typing.AnyStr, _inst(str, bytes)),
    'PatS': (U.PatS, lambda x, tower=False: isinstance(x, U.re.Pattern) and isinstance(x.pattern, str), _inst(U.re.Pattern)),
    'MatS': (U.MatS, lambda x, tower=False: isinstance(x, U.re.Match) and isinstance(x.string, str), _inst(U.re.Match)),
    'TD': (U.TD, lambda x, tower=False: isinstance(x, dict) and set(x) == {'a', 'b'} and isinstance(x['a'], int) and isinstance(x['b'], str),
           _inst(cabc.Mapping)),
    'TDo': (U.TDo, lambda x, tower=False: isinstance(x, dict) and set(x) <= {'a'} and all(isinstance(v, int) for v in x.values()), _inst(cabc.Mapping)),
    'NT': (U.NT, lambda x, tower=False: isinstance(x, U.NT) and isinstance(x.a, int) and isinstance(x.b, str), _inst(U.NT)),
    'DC': (U.DC, _inst(U.DC)),
    'GenI': (U.GenI, _inst(cabc.Generator)),
    'CtxI': (U.CtxI, _inst(U.contextlib.AbstractContextManager)),
    'PathS': (U.PathS, _inst(U.pathlib.PurePath)),
    'AL': (U.AL, _inst(int, str)),
    'ALgi': (U.ALgi, lambda x, tower=False: x is None or (isinstance(x, list) and all(isinstance(i, int) for i in x)),
             lambda x, tower=False: x is None or (isinstance(x, list) and (not x or any(isinstance(i, int) for i in x)))),
    # a recursive alias is unrolled once by beartype (documented: one level of recursion); below that level the weakest
    # reading only looks at the class of an item
    'ALr': (U.ALr, lambda x, tower=False: _alr(x, all),
            lambda x, tower=False: isinstance(x, int) or (isinstance(x, list) and (not x or any(isinstance(i, (int, list)) for i in x)))),
    'Type_': (typing.Type, _inst(type)),
    'Tuple_': (typing.Tuple, _inst(tuple)),
    'List_': (typing.List, _inst(list)),
    'Dict_': (typing.Dict, _inst(dict)),
    'TupU': (U.TupU, lambda x, tower=False: isinstance(x, tuple) and len(x) >= 1 and isinstance(x[0], int) and all(isinstance(i, str) for i in x[1:]),
             _inst(tuple)),
    'TupUU': (U.TupUU, lambda x, tower=False: isinstance(x, tuple) and len(x) == 2 and isinstance(x[0], int) and isinstance(x[1], str)),
    'InitI': (U.InitI, _inst(int)),
    'FinI': (U.FinI, _inst(int)),
    'GRegI': (U.GReg[int], lambda x, tower=False: isinstance(x, U.GReg) and all(isinstance(k, int) and isinstance(v, U.GL) and all(isinstance(i, str) for i in v)
                                                                                for k, v in x.items()), _inst(U.GReg)),
    'GOutI': (U.GOut[int], lambda x, tower=False: isinstance(x, U.GOut) and all(isinstance(v, U.GL) and all(isinstance(i, str) for i in v) for v in x),
              _inst(U.GOut)),
    'list_': (list, _inst(list)),      # unsubscripted builtin containers as plain classes
    'dict_': (dict, _inst(dict)),
    'tuple_': (tuple, _inst(tuple)),
}
def _alr(x, quant, depth=0):
    """type ALr = int | list[ALr]"""
    if isinstance(x, int):
        return True
    return isinstance(x, list) and depth < 50 and quant(_alr(i, quant, depth + 1) for i in x)


ATOM_SRC = {
    'GRegI': 'GReg[int]', 'GOutI': 'GOut[int]', 'Hashable': 'cabc.Hashable', 'Sized': 'typing.Sized', 'Callable_': 'cabc.Callable', 'LStr': 'typing.LiteralString',
    'SupportsInt': 'typing.SupportsInt', 'AnyStr': 'typing.AnyStr', 'Type_': 'typing.Type', 'Tuple_': 'typing.Tuple', 'List_': 'typing.List',
    'Dict_': 'typing.Dict',
    'none': 'None', 'NoneType': 'type(None)', 'any': 'typing.Any', 'list_': 'list', 'dict_': 'dict', 'tuple_': 'tuple',
}
# atoms whose hint object is a class usable under type[...] (maps to the class for issubclass)
ATOM_CLASS = {
    'int': int, 'bool': bool, 'str': str, 'float': float, 'bytes': bytes, 'K': U.K, 'K2': U.K2, 'Other': U.Other,
    'E': U.E, 'object': object, 'complex': complex, 'DupA': U.DupA, 'DupB': U.DupB,
}

LITVALS = {
    '1': 1, '2': 2, '0': 0, 'True': True, 'False': False, "'a'": 'a', "'b'": 'b', "''": '', 'None': None,
    "b'x'": b'x', 'E.A': U.E.A, 'E.B': U.E.B, 'IE.X': U.IE.X, 'IE.Y': U.IE.Y,
}

# ---------------------------------------------------------------------------
# Container families.
# kind: 'seq' every item, random access; 'reit' collection, first item; 'quasi'
# items only constrained when the object is a Collection; 'shallow' class only;
# 'counter' keys constrained, values int; 'map'; 'itemsview'.
# ---------------------------------------------------------------------------
C1 = {
    'list': (list, list, 'seq'),
    'List': (typing.List, list, 'seq'),
    'Sequence': (typing.Sequence, cabc.Sequence, 'seq'),
    'abc.Sequence': (cabc.Sequence, cabc.Sequence, 'seq'),
    'MutableSequence': (typing.MutableSequence, cabc.MutableSequence, 'seq'),
    'abc.MutableSequence': (cabc.MutableSequence, cabc.MutableSequence, 'seq'),
    'set': (set, set, 'reit'),
    'Set': (typing.Set, set, 'reit'),
    'frozenset': (frozenset, frozenset, 'reit'),
    'FrozenSet': (typing.FrozenSet, frozenset, 'reit'),
    'AbstractSet': (typing.AbstractSet, cabc.Set, 'reit'),
    'abc.Set': (cabc.Set, cabc.Set, 'reit'),
    'MutableSet': (typing.MutableSet, cabc.MutableSet, 'reit'),
    'abc.MutableSet': (cabc.MutableSet, cabc.MutableSet, 'reit'),
    'deque': (collections.deque, collections.deque, 'reit'),
    'Deque': (typing.Deque, collections.deque, 'reit'),
    'Collection': (typing.Collection, cabc.Collection, 'reit'),
    'abc.Collection': (cabc.Collection, cabc.Collection, 'reit'),
    'KeysView': (typing.KeysView, cabc.KeysView, 'reit'),
    'abc.KeysView': (cabc.KeysView, cabc.KeysView, 'reit'),
    'ValuesView': (typing.ValuesView, cabc.ValuesView, 'reit'),
    'abc.ValuesView': (cabc.ValuesView, cabc.ValuesView, 'reit'),
    'Iterable': (typing.Iterable, cabc.Iterable, 'quasi'),
    'abc.Iterable': (cabc.Iterable, cabc.Iterable, 'quasi'),
    'Container': (typing.Container, cabc.Container, 'quasi'),
    'abc.Container': (cabc.Container, cabc.Container, 'quasi'),
    'Reversible': (typing.Reversible, cabc.Reversible, 'quasi'),
    'abc.Reversible': (cabc.Reversible, cabc.Reversible, 'quasi'),
    'Iterator': (typing.Iterator, cabc.Iterator, 'shallow'),
    'abc.Iterator': (cabc.Iterator, cabc.Iterator, 'shallow'),
    'Counter': (typing.Counter, collections.Counter, 'counter'),
    'abc.Counter': (collections.Counter, collections.Counter, 'counter'),
}
C2 = {
    'dict': (dict, dict, 'map'),
    'Dict': (typing.Dict, dict, 'map'),
    'Mapping': (typing.Mapping, cabc.Mapping, 'map'),
    'abc.Mapping': (cabc.Mapping, cabc.Mapping, 'map'),
    'MutableMapping': (typing.MutableMapping, cabc.MutableMapping, 'map'),
    'abc.MutableMapping': (cabc.MutableMapping, cabc.MutableMapping, 'map'),
    'defaultdict': (collections.defaultdict, collections.defaultdict, 'map'),
    'DefaultDict': (typing.DefaultDict, collections.defaultdict, 'map'),
    'OrderedDict': (collections.OrderedDict, collections.OrderedDict, 'map'),
    'typing.OrderedDict': (typing.OrderedDict, collections.OrderedDict, 'map'),
    'ChainMap': (collections.ChainMap, collections.ChainMap, 'map'),
    'typing.ChainMap': (typing.ChainMap, collections.ChainMap, 'map'),
    'ItemsView': (typing.ItemsView, cabc.ItemsView, 'itemsview'),
    'abc.ItemsView': (cabc.ItemsView, cabc.ItemsView, 'itemsview'),
}
_FAM_SRC = {
    'abc.Counter': 'collections.Counter', 'deque': 'collections.deque', 'defaultdict': 'collections.defaultdict',
    'OrderedDict': 'collections.OrderedDict', 'ChainMap': 'collections.ChainMap',
}


def fam_src(f: str) -> str:
    if f in _FAM_SRC:
        return _FAM_SRC[f]
    if f.startswith('abc.'):
        return 'cabc.' + f[4:]
    if f.startswith('typing.'):
        return f
    if f in ('list', 'set', 'frozenset', 'dict', 'tuple', 'type'):
        return f
    return 'typing.' + f


GENERICS = {'G': U.G, 'GL': U.GL}


# ---------------------------------------------------------------------------
# Building the real hint from a term.
# ---------------------------------------------------------------------------
def build(t):
    tag = t[0]
    if tag == 'a':
        return ATOMS[t[1]][0]
    if tag == 'u':
        ms = [build(m) for m in t[2:]]
        if t[1] == 'O':
            return typing.Optional[ms[0]]
        if t[1] == 'B':
            h = ms[0]
            if h is None and len(ms) > 1 and ms[1] is None:
                return typing.Union[tuple(ms)]
            try:
                for m in ms[1:]:
                    h = h | m
            except TypeError:
                return typing.Union[tuple(ms)]
            return h
        return typing.Union[tuple(ms)]
    if tag == 'lit':
        return typing.Literal[tuple(LITVALS[v] for v in t[1:])]
    if tag == 'tf':
        base = tuple if t[1] == 'b' else typing.Tuple
        ms = tuple(build(m) for m in t[2:])
        return base[ms] if ms else base[()]
    if tag == 'tv':
        base = tuple if t[1] == 'b' else typing.Tuple
        return base[build(t[2]), ...]
    if tag == 'c1':
        return C1[t[1]][0][build(t[2])]
    if tag == 'c2':
        return C2[t[1]][0][build(t[2]), build(t[3])]
    if tag == 'ty':
        return (type if t[1] == 'b' else typing.Type)[build(t[2])]
    if tag == 'ann':
        return typing.Annotated[(build(t[1]),) + tuple(VM.vbuild(v) for v in t[2:])]
    if tag == 'g':
        return GENERICS[t[1]][build(t[2])]
    if tag == 'annm':
        return typing.Annotated[build(t[1]), 'meta']
    if tag == 'call':
        base = typing.Callable if t[1] == 't' else cabc.Callable
        if t[2] == '...':
            return base[..., build(t[3])]
        return base[[build(p) for p in t[2]], build(t[3])]
    raise ValueError(t)


def src(t) -> str:
    """Python source of the hint (evaluable with universe.NAMESPACE + vale names)."""
    tag = t[0]
    if tag == 'a':
        return ATOM_SRC.get(t[1], t[1])
    if tag == 'u':
        ms = [src(m) for m in t[2:]]
        if t[1] == 'O':
            return f'typing.Optional[{ms[0]}]'
        if t[1] == 'B':
            return '(' + ' | '.join(ms) + ')'
        return 'typing.Union[' + ', '.join(ms) + ']'
    if tag == 'lit':
        return 'typing.Literal[' + ', '.join(t[1:]) + ']'
    if tag == 'tf':
        base = 'tuple' if t[1] == 'b' else 'typing.Tuple'
        return f'{base}[' + (', '.join(src(m) for m in t[2:]) or '()') + ']'
    if tag == 'tv':
        base = 'tuple' if t[1] == 'b' else 'typing.Tuple'
        return f'{base}[{src(t[2])}, ...]'
    if tag == 'c1':
        return f'{fam_src(t[1])}[{src(t[2])}]'
    if tag == 'c2':
        return f'{fam_src(t[1])}[{src(t[2])}, {src(t[3])}]'
    if tag == 'ty':
        return ('type' if t[1] == 'b' else 'typing.Type') + f'[{src(t[2])}]'
    if tag == 'ann':
        return 'typing.Annotated[' + ', '.join([src(t[1])] + [VM.vsrc(v) for v in t[2:]]) + ']'
    if tag == 'g':
        return f'{t[1]}[{src(t[2])}]'
    if tag == 'annm':
        return f"typing.Annotated[{src(t[1])}, 'meta']"
    if tag == 'call':
        base = 'typing.Callable' if t[1] == 't' else 'cabc.Callable'
        ps = '...' if t[2] == '...' else '[' + ', '.join(src(p) for p in t[2]) + ']'
        return f'{base}[{ps}, {src(t[3])}]'
    raise ValueError(t)


def depth(t) -> int:
    tag = t[0]
    if tag in ('a', 'lit'):
        return 0
    if tag == 'u':
        return max(depth(m) for m in t[2:])          # unions do not add a nesting level of *piths*
    if tag == 'tf':
        return 1 + max([depth(m) for m in t[2:]] or [0]) if len(t) > 2 else 0
    if tag in ('tv', 'c1', 'ty', 'g'):
        return 1 + depth(t[2])
    if tag == 'c2':
        return 1 + max(depth(t[2]), depth(t[3]))
    if tag in ('ann', 'annm'):
        return depth(t[1])
    if tag == 'call':
        return 1
    raise ValueError(t)


def has_sampling(t) -> bool:
    """Does the term contain a node at which beartype may consult the random draw
    (sequence-like or quasi-iterable)?  Used only for the 'at most one draw' count (C02/O4)."""
    tag = t[0]
    if tag == 'a':
        return t[1] in ('NL', 'TL', 'ALgi', 'ALr', 'GRegI', 'GOutI')
    if tag == 'lit':
        return False
    if tag == 'u':
        return any(has_sampling(m) for m in t[2:])
    if tag == 'tf':
        return any(has_sampling(m) for m in t[2:])
    if tag == 'tv':
        return True
    if tag == 'c1':
        return C1[t[1]][2] in ('seq', 'quasi') or has_sampling(t[2])
    if tag == 'c2':
        return has_sampling(t[2]) or has_sampling(t[3])
    if tag == 'ty':
        return False
    if tag in ('ann', 'annm'):
        return has_sampling(t[1])
    if tag == 'call':
        return False
    if tag == 'g':
        return t[1] == 'GL' or has_sampling(t[2])
    raise ValueError(t)


# ---------------------------------------------------------------------------
# The two predicates.  quant = all  -> sat_all ;  quant = any-or-empty -> sat_some
# ---------------------------------------------------------------------------
def _type_ok(t, x) -> bool:
    """type[t]: x is a class and a subclass of (a member of) t."""
    tag = t[0]
    if tag == 'a':
        if t[1] in ('any', 'object', 'T'):
            return True
        if t[1] in ('none', 'NoneType'):
            return issubclass(x, NoneType)
        c = ATOM_CLASS.get(t[1])
        if c is None:
            raise ValueError(('type[] over', t))
        return issubclass(x, c)
    if tag == 'u':
        return any(_type_ok(m, x) for m in t[2:])
    # type[] over subscripted containers only arises from hand-rewriting in C18, whose oracle is differential and
    # uses this predicate merely to pick objects: judge by the origin class.
    if tag == 'c1':
        return issubclass(x, C1[t[1]][1])
    if tag == 'c2':
        return issubclass(x, C2[t[1]][1])
    if tag in ('tf', 'tv'):
        return issubclass(x, tuple)
    raise ValueError(('type[] over', t))


def _sat(t, x, full: bool, tower: bool) -> bool:
    tag = t[0]
    if tag == 'a':
        e = ATOMS[t[1]]
        return (e[1] if full or len(e) < 3 else e[2])(x, tower)
    if tag == 'u':
        for m in t[2:]:
            if _sat(m, x, full, tower):
                return True
        return t[1] == 'O' and x is None
    if tag == 'lit':
        for vs in t[1:]:
            m = LITVALS[vs]
            if full:
                if type(x) is type(m) and x == m:
                    return True
            elif isinstance(x, type(m)) and x == m:
                return True
        return False
    if tag == 'tf':
        if not isinstance(x, tuple) or len(x) != len(t) - 2:
            return False
        return all(_sat(m, i, full, tower) for m, i in zip(t[2:], x))
    quant = all if full else _some
    if tag == 'tv':
        return isinstance(x, tuple) and quant(_sat(t[2], i, full, tower) for i in x)
    if tag == 'c1':
        _, cls, kind = C1[t[1]]
        if not isinstance(x, cls):
            return False
        if kind == 'shallow':
            return True
        if kind == 'quasi' and not isinstance(x, cabc.Collection):
            return True
        if kind == 'counter':
            return quant(_sat(t[2], k, full, tower) and isinstance(v, int) for k, v in x.items())
        return quant(_sat(t[2], i, full, tower) for i in x)
    if tag == 'c2':
        _, cls, kind = C2[t[1]]
        if not isinstance(x, cls):
            return False
        if kind == 'itemsview':
            return quant(_sat(t[2], k, full, tower) and _sat(t[3], v, full, tower) for k, v in x)
        return quant(_sat(t[2], k, full, tower) and _sat(t[3], v, full, tower) for k, v in x.items())
    if tag == 'ty':
        return isinstance(x, type) and _type_ok(t[2], x)
    if tag == 'ann':
        return _sat(t[1], x, full, tower) and all(VM.vsat(v, x) for v in t[2:])
    if tag == 'annm':
        return _sat(t[1], x, full, tower)
    if tag == 'call':
        return callable(x)          # beartype (like isinstance(x, Callable)) checks callability only
    if tag == 'g':
        if not isinstance(x, GENERICS[t[1]]):
            return False
        if t[1] == 'GL':
            return quant(_sat(t[2], i, full, tower) for i in x)
        return True
    raise ValueError(t)


def _some(it) -> bool:
    """'at least one item, or emptiness'."""
    empty = True
    for b in it:
        if b:
            return True
        empty = False
    return empty


def sat_all(t, x, tower: bool = False) -> bool:
    return _sat(t, x, True, tower)


def sat_some(t, x, tower: bool = False) -> bool:
    return _sat(t, x, False, tower)


# ---------------------------------------------------------------------------
# Honesty check: hand-written truth table of obvious cases.
# ---------------------------------------------------------------------------
def selftest():
    A = lambda n: ('a', n)
    li = ('c1', 'list', A('int'))
    tbl = [
        (li, [1, 2], True, True), (li, [1, 'a'], False, True), (li, ['a', 'b'], False, False), (li, [], True, True),
        (li, (1,), False, False),
        (A('int'), True, True, True), (A('float'), 1, False, False), (A('none'), None, True, True),
        (('u', 'U', A('int'), A('str')), 'a', True, True), (('u', 'U', A('int'), A('str')), 1.5, False, False),
        (('u', 'O', A('int')), None, True, True),
        (('lit', '1'), 1, True, True), (('lit', '1'), True, False, True), (('lit', '1'), 2, False, False),
        (('lit', '1'), 1.0, False, False), (('lit', 'True'), 1, False, False),
        (('tf', 'b', A('int'), A('str')), (1, 'a'), True, True), (('tf', 'b', A('int'), A('str')), (1,), False, False),
        (('tf', 'b', A('int'), A('str')), ('a', 'a'), False, False), (('tf', 'b'), (), True, True),
        (('tv', 'b', A('int')), (1, 'a'), False, True), (('tv', 'b', A('int')), ('a',), False, False),
        (('c2', 'dict', A('str'), A('int')), {'a': 1}, True, True),
        (('c2', 'dict', A('str'), A('int')), {'a': 1, 2: 2}, False, True),
        (('c2', 'dict', A('str'), A('int')), {1: 1}, False, False),
        (('c2', 'dict', A('str'), A('int')), {'a': 'x'}, False, False),
        (('ty', 'b', A('int')), bool, True, True), (('ty', 'b', A('int')), str, False, False),
        (('ty', 'b', A('int')), 1, False, False),
        (('c1', 'Iterable', A('int')), iter(['a']), True, True), (('c1', 'Iterable', A('int')), ['a'], False, False),
        (('ann', A('int'), ('is', 'pos')), 1, True, True), (('ann', A('int'), ('is', 'pos')), 0, False, False),
        (('c1', 'Counter', A('str')), collections.Counter('ab'), True, True),
        (('c1', 'Counter', A('str')), collections.Counter([1]), False, False),
        (('g', 'GL', A('int')), U.GL([1]), True, True), (('g', 'GL', A('int')), U.GL(['a']), False, False),
        (('g', 'GL', A('int')), [1], False, False), (('g', 'G', A('int')), U.G(), True, True),
        (A('P'), U.PImpl(), True, True), (A('P'), U.K(), False, False),
        (('c1', 'list', li), [[1], ['a']], False, True), (('c1', 'list', li), [['a']], False, False),
    ]
    for t, x, ea, es in tbl:
        assert sat_all(t, x) is ea, ('sat_all', t, x)
        assert sat_some(t, x) is es, ('sat_some', t, x)
        build(t)
        src(t)
    assert sat_all(A('float'), 1, tower=True) and sat_all(A('complex'), 1.5, tower=True)
    return len(tbl)
