"""Reference model of beartype.vale validator expressions (C12, and the
Annotated branch of hintsem).

Validator terms:
    ('is', fname)              Is[FUNCS[fname]]
    ('iseq', value_src)        IsEqual[eval(value_src)]
    ('isinst', (cls names))    IsInstance[...]
    ('issub', (cls names))     IsSubclass[...]
    ('isattr', name, vterm)    IsAttr[name, V]
    ('and', a, b)  ('or', a, b)  ('not', a)
"""
from __future__ import annotations

from . import universe as U


def _truthy(x):
    return bool(x)


def _pos(x):
    return isinstance(x, (int, float)) and x > 0


def _never(x):
    return False


def _always(x):
    return True


def _isstr(x):
    return isinstance(x, str)


FUNCS = {'truthy': _truthy, 'pos': _pos, 'never': _never, 'always': _always, 'isstr': _isstr}

CLASSES = {'int': int, 'str': str, 'bool': bool, 'float': float, 'K': U.K, 'K2': U.K2, 'Other': U.Other,
           'object': object, 'type': type, 'list': list}

VALUES = {'1': 1, "'a'": 'a', '[1]': [1], 'True': True, '1.0': 1.0, 'None': None, '0': 0, '2': 2, 'NEQ': U.NEQ, 'NAN': U.NAN}

_MISSING = object()


def _clss(names):
    cs = tuple(CLASSES[n] for n in names)
    return cs[0] if len(cs) == 1 else cs


def vsat(v, x) -> bool:
    """Ordinary boolean meaning of validator term v on object x."""
    tag = v[0]
    if tag == 'is':
        return bool(FUNCS[v[1]](x))
    if tag == 'iseq':
        return bool(x == VALUES[v[1]])
    if tag == 'isinst':
        return isinstance(x, _clss(v[1]))
    if tag == 'issub':
        return isinstance(x, type) and issubclass(x, _clss(v[1]))
    if tag == 'isattr':
        a = getattr(x, v[1], _MISSING)
        return a is not _MISSING and vsat(v[2], a)
    if tag == 'and':
        return vsat(v[1], x) and vsat(v[2], x)
    if tag == 'or':
        return vsat(v[1], x) or vsat(v[2], x)
    if tag == 'not':
        return not vsat(v[1], x)
    raise ValueError(v)


def vbuild(v):
    """Real beartype.vale validator for term v."""
    from beartype.vale import Is, IsAttr, IsEqual, IsInstance, IsSubclass
    tag = v[0]
    if tag == 'is':
        return Is[FUNCS[v[1]]]
    if tag == 'iseq':
        return IsEqual[VALUES[v[1]]]
    if tag == 'isinst':
        return IsInstance[_clss(v[1])]
    if tag == 'issub':
        return IsSubclass[_clss(v[1])]
    if tag == 'isattr':
        return IsAttr[v[1], vbuild(v[2])]
    if tag == 'and':
        return vbuild(v[1]) & vbuild(v[2])
    if tag == 'or':
        return vbuild(v[1]) | vbuild(v[2])
    if tag == 'not':
        return ~vbuild(v[1])
    raise ValueError(v)


def vsrc(v) -> str:
    tag = v[0]
    if tag == 'is':
        return f'Is[FUNCS[{v[1]!r}]]'
    if tag == 'iseq':
        return f'IsEqual[{v[1]}]'
    if tag == 'isinst':
        return 'IsInstance[' + ', '.join(v[1]) + ']'
    if tag == 'issub':
        return 'IsSubclass[' + ', '.join(v[1]) + ']'
    if tag == 'isattr':
        return f'IsAttr[{v[1]!r}, {vsrc(v[2])}]'
    if tag == 'and':
        return f'({vsrc(v[1])} & {vsrc(v[2])})'
    if tag == 'or':
        return f'({vsrc(v[1])} | {vsrc(v[2])})'
    if tag == 'not':
        return f'(~{vsrc(v[1])})'
    raise ValueError(v)


def vdepth(v) -> int:
    tag = v[0]
    if tag in ('is', 'iseq', 'isinst', 'issub'):
        return 0
    if tag == 'isattr':
        return 1 + vdepth(v[2])
    if tag == 'not':
        return 1 + vdepth(v[1])
    return 1 + max(vdepth(v[1]), vdepth(v[2]))
