"""Fixed universe of user classes / typing objects the hint terms refer to.

Everything here is created exactly once per process, in a fixed order, so a
forked worker sees the same objects (and the same id()s) as its parent.
"""
from __future__ import annotations

import collections
import collections.abc as cabc
import enum
import typing
from typing import Generic, NewType, Protocol, TypeVar, runtime_checkable


class K:
    """Plain user class."""
    def __repr__(self):
        return f'{type(self).__name__}()'


class K2(K):
    """Subclass of K."""


class Other:
    """Class unrelated to K."""
    def __repr__(self):
        return 'Other()'


class E(enum.Enum):
    A = 1
    B = 2


class IE(enum.IntEnum):
    X = 1
    Y = 2


N = NewType('N', int)
NL = NewType('NL', typing.List[int])
NF = NewType('NF', float)
TF = TypeVar('TF', bound=float)
TL = TypeVar('TL', bound=typing.List[int])
TU = TypeVar('TU', bound=typing.Union[int, str])
T = TypeVar('T')
TB = TypeVar('TB', bound=int)
TC = TypeVar('TC', int, str)


@runtime_checkable
class P(Protocol):
    def meth(self) -> int: ...


class PImpl:
    """Structurally implements P without inheriting from it."""
    def meth(self) -> int:
        return 1

    def __repr__(self):
        return 'PImpl()'


class G(Generic[T]):
    """User generic with no container superclass: G[int] is checked as isinstance(x, G)."""
    def __repr__(self):
        return 'G()'


class GL(typing.List[T]):
    """User generic whose pseudo-superclass list[T] is unerased: GL[int] constrains items."""
    def __repr__(self):
        return 'GL(' + list.__repr__(self) + ')'


class GReg(typing.Dict[T, GL[str]]):
    """User generic whose base mentions *another* generic, concretely subscripted, over the same type variable:
    GReg[int] maps int keys to GL[str] values."""
    def __repr__(self):
        return 'GReg(' + dict.__repr__(self) + ')'


class GOut(typing.List[GL[str]], Generic[T]):
    """GOut[int] is a list of GL[str] (the parameter of GOut is otherwise unused)."""
    def __repr__(self):
        return 'GOut(' + list.__repr__(self) + ')'


# --- user-defined carriers (pure collections.abc implementations) -----------
class USeq(cabc.Sequence):
    def __init__(self, items=()):
        self._d = list(items)

    def __getitem__(self, i):
        return self._d[i]

    def __len__(self):
        return len(self._d)

    def __repr__(self):
        return f'USeq({self._d!r})'

    def __eq__(self, o):
        return type(o) is USeq and o._d == self._d

    __hash__ = None


class UMSeq(cabc.MutableSequence):
    def __init__(self, items=()):
        self._d = list(items)

    def __getitem__(self, i):
        return self._d[i]

    def __setitem__(self, i, v):
        self._d[i] = v

    def __delitem__(self, i):
        del self._d[i]

    def insert(self, i, v):
        self._d.insert(i, v)

    def __len__(self):
        return len(self._d)

    def __repr__(self):
        return f'UMSeq({self._d!r})'


class UMap(cabc.Mapping):
    def __init__(self, pairs=()):
        self._d = dict(pairs)

    def __getitem__(self, k):
        return self._d[k]

    def __iter__(self):
        return iter(self._d)

    def __len__(self):
        return len(self._d)

    def __repr__(self):
        return f'UMap({self._d!r})'


class UMMap(cabc.MutableMapping):
    def __init__(self, pairs=()):
        self._d = dict(pairs)

    def __getitem__(self, k):
        return self._d[k]

    def __setitem__(self, k, v):
        self._d[k] = v

    def __delitem__(self, k):
        del self._d[k]

    def __iter__(self):
        return iter(self._d)

    def __len__(self):
        return len(self._d)

    def __repr__(self):
        return f'UMMap({self._d!r})'


class USet(cabc.Set):
    def __init__(self, items=()):
        self._d = list(dict.fromkeys(items))

    def __contains__(self, x):
        return x in self._d

    def __iter__(self):
        return iter(self._d)

    def __len__(self):
        return len(self._d)

    def __repr__(self):
        return f'USet({self._d!r})'


class UMSet(cabc.MutableSet):
    def __init__(self, items=()):
        self._d = list(dict.fromkeys(items))

    def __contains__(self, x):
        return x in self._d

    def __iter__(self):
        return iter(self._d)

    def __len__(self):
        return len(self._d)

    def add(self, x):
        if x not in self._d:
            self._d.append(x)

    def discard(self, x):
        if x in self._d:
            self._d.remove(x)

    def __repr__(self):
        return f'UMSet({self._d!r})'


class UColl(cabc.Collection):
    """Collection that is neither a Sequence, a Set nor a Mapping."""
    def __init__(self, items=()):
        self._d = list(items)

    def __contains__(self, x):
        return x in self._d

    def __iter__(self):
        return iter(self._d)

    def __len__(self):
        return len(self._d)

    def __repr__(self):
        return f'UColl({self._d!r})'


class URev(cabc.Reversible):
    """Reversible (hence Iterable) but NOT a Collection: no __len__/__contains__."""
    def __init__(self, items=()):
        self._d = list(items)

    def __iter__(self):
        return iter(self._d)

    def __reversed__(self):
        return reversed(self._d)

    def __repr__(self):
        return f'URev({self._d!r})'


class UCont(cabc.Container):
    """Container only: not iterable, not sized."""
    def __init__(self, items=()):
        self._d = list(items)

    def __contains__(self, x):
        return x in self._d

    def __repr__(self):
        return f'UCont({self._d!r})'


class UIter:
    """Iterable only (structural), not a Collection; re-iterable."""
    def __init__(self, items=()):
        self._d = list(items)

    def __iter__(self):
        return iter(self._d)

    def __repr__(self):
        return f'UIter({self._d!r})'


def _mkdup():
    class Dup:
        def __repr__(self):
            return 'Dup()'
    return Dup


# two distinct classes with the same __name__/__qualname__/__module__, hence the same repr()
DupA = _mkdup()
DupB = _mkdup()
# two distinct type variables with the same name, hence the same repr()
TSi = TypeVar('TS', bound=int)
TSs = TypeVar('TS', bound=str)


class Obj:
    """Plain attribute bag: Obj(x=1, y=Obj(...))."""
    def __init__(self, **kw):
        self.__dict__.update(kw)

    def __repr__(self):
        return 'Obj(' + ', '.join(f'{k}={v!r}' for k, v in self.__dict__.items()) + ')'


def _dup_named(base, name='DupSeq'):
    """A user collection class derived from `base`; every class made here has the same module, __name__ and __qualname__."""
    cls = type(base)(name, (base,), {'__module__': __name__, '__qualname__': name, '__hash__': None})
    return cls


DupSeqA = _dup_named(UMSeq)          # a MutableSequence called DupSeq
DupSeqB = _dup_named(USeq)           # a (read-only) Sequence called DupSeq
DupSeqC = _dup_named(UColl)          # a mere Collection called DupSeq


class FalsyDict(dict):
    """A non-empty mapping that is falsy (truthiness must never stand in for emptiness)."""
    def __bool__(self):
        return False


class FalsyList(list):
    def __bool__(self):
        return False


class NeverEq:
    """An object that is not even equal to itself (like NaN, but of a user class)."""
    def __eq__(self, other):
        return False

    def __hash__(self):
        return 7

    def __repr__(self):
        return 'NEQ'


NEQ = NeverEq()
NAN = float('nan')


# --- further hint kinds (reduced by beartype to shallower checks) --------------------------------------------------
import dataclasses
import pathlib
import re


class TD(typing.TypedDict):
    a: int
    b: str


class TDo(typing.TypedDict, total=False):
    a: int


class NT(typing.NamedTuple):
    a: int
    b: str


@dataclasses.dataclass(unsafe_hash=True)
class DC:
    a: int = 1


class UCM:
    """Context manager by inheritance from the abc."""
    def __enter__(self):
        return 1

    def __exit__(self, *a):
        return False

    def __repr__(self):
        return 'UCM()'


import contextlib
contextlib.AbstractContextManager.register(UCM)

_pep695 = {'typing': typing}
exec('type AL = int | str\ntype ALg[T] = list[T] | None\ntype ALr = int | list[ALr]\n', _pep695)
AL, ALg, ALr = _pep695['AL'], _pep695['ALg'], _pep695['ALr']
ALgi = ALg[int]
TupU = tuple[int, *tuple[str, ...]]          # PEP 646: fixed prefix, variadic rest
TupUU = tuple[*tuple[int, str]]              # PEP 646: unpacked fixed tuple == tuple[int, str]
PatS = re.Pattern[str]
MatS = re.Match[str]
GenI = typing.Generator[int, None, None]
CtxI = typing.ContextManager[int]
PathS = __import__('os').PathLike[str]
InitI = dataclasses.InitVar[int]
FinI = typing.Final[int]

# Names visible to eval() of rendered hint / object sources (replay scripts).
NAMESPACE = {
    'DupSeqA': DupSeqA, 'DupSeqB': DupSeqB, 'DupSeqC': DupSeqC, 'FalsyDict': FalsyDict, 'FalsyList': FalsyList, 'NEQ': NEQ, 'NAN': NAN, 'GReg': GReg, 'GOut': GOut, 'TD': TD, 'TDo': TDo, 'NT': NT, 'DC': DC, 'UCM': UCM, 'AL': AL, 'ALg': ALg, 'ALr': ALr, 'ALgi': ALgi, 'TupU': TupU, 'TupUU': TupUU,
    'PatS': PatS, 'MatS': MatS, 'GenI': GenI, 'CtxI': CtxI, 'PathS': PathS, 'InitI': InitI, 'FinI': FinI, 're': re, 'pathlib': pathlib,
    'K': K, 'K2': K2, 'Other': Other, 'E': E, 'IE': IE, 'NL': NL, 'NF': NF, 'TF': TF, 'TL': TL, 'TU': TU, 'N': N, 'T': T, 'TB': TB, 'TC': TC, 'P': P, 'PImpl': PImpl,
    'G': G, 'GL': GL, 'USeq': USeq, 'UMSeq': UMSeq, 'UMap': UMap, 'UMMap': UMMap, 'USet': USet,
    'UMSet': UMSet, 'UColl': UColl, 'URev': URev, 'UCont': UCont, 'UIter': UIter,
    'Obj': Obj, 'DupA': DupA, 'DupB': DupB, 'TSi': TSi, 'TSs': TSs, 'typing': typing, 'collections': collections, 'cabc': cabc,
}
