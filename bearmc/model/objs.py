"""Object terms: finite descriptions of Python objects from which a *fresh*
object is built for every execution (no aliasing between executions), and which
render to evaluable source for replay scripts.

    ('v', key)                      scalar from VALS
    ('new', clsname)                fresh instance of a universe class
    ('cls', name)                   a class object
    ('c', carrier, (item terms))    single-axis container
    ('m', carrier, ((k, v) ...))    mapping
    ('view', 'keys'|'values'|'items', mapping term)
    ('fn', name)                    a function object
"""
from __future__ import annotations

import collections
import itertools
import types

from . import universe as U
from . import hintsem as HS
from . import valemodel as VM

VALS = {
    '1': 1, '0': 0, '2': 2, '3': 3, '-1': -1, 'True': True, 'False': False, "'a'": 'a', "'b'": 'b', "''": '', "'ab'": 'ab',
    '1.5': 1.5, '0.0': 0.0, '1.0': 1.0, 'None': None, "b'x'": b'x', "b''": b'', '1j': 1j, 'E.A': U.E.A, 'E.B': U.E.B,
    'IE.X': U.IE.X, 'IE.Y': U.IE.Y, '...': ..., 'NEQ': U.NEQ, 'NAN': U.NAN,
}
NEW = {'DupA': U.DupA, 'DupB': U.DupB, 'K': U.K, 'K2': U.K2, 'Other': U.Other, 'PImpl': U.PImpl, 'G': U.G, 'object': object}
CLS = {'int': int, 'bool': bool, 'str': str, 'float': float, 'bytes': bytes, 'K': U.K, 'K2': U.K2, 'Other': U.Other,
       'object': object, 'type': type, 'E': U.E, 'complex': complex, 'list': list}


def _gen(items):
    for i in items:
        yield i


def _fn_f(x):
    return x


C_CARRIERS = {
    'list': list, 'tuple': tuple, 'USeq': U.USeq, 'UMSeq': U.UMSeq, 'GL': U.GL, 'deque': collections.deque,
    'set': set, 'frozenset': frozenset, 'USet': U.USet, 'UMSet': U.UMSet, 'UColl': U.UColl, 'URev': U.URev,
    'UCont': U.UCont, 'UIter': U.UIter, 'GOut': U.GOut, 'FalsyList': U.FalsyList, 'DupSeqA': U.DupSeqA, 'DupSeqB': U.DupSeqB, 'DupSeqC': U.DupSeqC, 'gen': _gen, 'iter': iter, 'Counter': collections.Counter,
}
C_SRC = {'deque': 'collections.deque', 'gen': '(lambda it: (i for i in it))', 'Counter': 'collections.Counter'}
M_CARRIERS = {
    'dict': dict,
    'defaultdict': lambda pairs: collections.defaultdict(int, pairs),
    'OrderedDict': collections.OrderedDict,
    'ChainMap': lambda pairs: collections.ChainMap(dict(pairs)),
    'Counter': lambda pairs: collections.Counter(dict(pairs)),
    'UMap': U.UMap, 'UMMap': U.UMMap, 'GReg': U.GReg, 'FalsyDict': U.FalsyDict,
    'mappingproxy': lambda pairs: types.MappingProxyType(dict(pairs)),
}
M_SRC = {
    'defaultdict': '(lambda p: collections.defaultdict(int, p))', 'OrderedDict': 'collections.OrderedDict',
    'ChainMap': '(lambda p: collections.ChainMap(dict(p)))', 'Counter': '(lambda p: collections.Counter(dict(p)))',
    'mappingproxy': '(lambda p: __import__("types").MappingProxyType(dict(p)))',
}


def _rec(kind):
    """Self-referential containers."""
    if kind == 'list-self':
        l = [1, 'a']
        l.append(l)
        return l
    if kind == 'list-only-self':
        l = []
        l.append(l)
        return l
    if kind == 'dict-self':
        d = {'k': 1}
        d['me'] = d
        return d
    if kind == 'mutual-lists':
        a, b = [1], ['a']
        a.append(b)
        b.append(a)
        return a
    if kind == 'list-dict-cycle':
        l = [1]
        d = {'l': l}
        l.append(d)
        return l
    if kind == 'deque-self':
        q = collections.deque([1])
        q.append(q)
        return q
    if kind == 'tuple-list-cycle':
        l = []
        t = (1, l)
        l.append(t)
        return t
    if kind == 'USeq-self':
        s = U.USeq([1])
        s._d.append(s)
        return s
    if kind == 'UMSeq-self':
        s = U.UMSeq(['a'])
        s._d.append(s)
        return s
    if kind == 'UMap-self':
        m = U.UMap([('k', 1)])
        m._d['me'] = m
        return m
    if kind == 'UColl-self':
        c = U.UColl([1])
        c._d.append(c)
        return c
    if kind == 'USeq-in-list-cycle':
        l = [1]
        s = U.USeq([l])
        l.append(s)
        return l
    if kind == 'UserList-self':
        ul = collections.UserList([1])
        ul.append(ul)
        return ul
    if kind == 'UserDict-self':
        ud = collections.UserDict({'k': 1})
        ud['me'] = ud
        return ud
    if kind == 'defaultdict-self':
        dd = collections.defaultdict(list)
        dd['me'] = dd
        return dd
    if kind == 'OrderedDict-self':
        od = collections.OrderedDict()
        od['me'] = od
        return od
    raise ValueError(kind)


REC_KINDS = ['list-self', 'list-only-self', 'dict-self', 'mutual-lists', 'list-dict-cycle', 'deque-self', 'tuple-list-cycle',
             'USeq-self', 'UMSeq-self', 'UMap-self', 'UColl-self', 'USeq-in-list-cycle', 'UserList-self', 'UserDict-self',
             'defaultdict-self', 'OrderedDict-self']

RAW = {
    'range3': lambda: range(3), 'range0': lambda: range(0), 'bytearray': lambda: bytearray(b'ab'), 'lambda': lambda: (lambda: 0),
    'builtin-len': lambda: len, 'object': lambda: object(), 'memoryview': lambda: memoryview(b'ab'), 'method': lambda: U.PImpl().meth,
    'UserList': lambda: collections.UserList([1, 'a']), 'UserDict': lambda: collections.UserDict({'k': 1}),
    'UserString': lambda: collections.UserString('ab'), 'str-long': lambda: 'abc', 'genexpr': lambda: (i for i in [1]),
    'enumerate': lambda: enumerate([1]), 'zip': lambda: zip([1], [2]), 'map': lambda: map(str, [1]), 'slice': lambda: slice(1),
    'ellipsis': lambda: ..., 'notimplemented': lambda: NotImplemented, 'module': lambda: collections, 'type': lambda: type,
    'namedtuple': lambda: collections.namedtuple('NT', 'a b')(1, 'x'), 'exception': lambda: ValueError('x'),
    'coroutine-fn': lambda: _acoro, 'asyncgen-fn': lambda: _agen, 'gen-fn': lambda: _gen, 'partial': lambda: __import__('functools').partial(len),
    'array': lambda: __import__('array').array('i', [1, 2]), 'frozenset-nested': lambda: frozenset([frozenset([1]), frozenset(['a'])]),
    'dict-keys-tuple': lambda: {(1, 'a'): [1]}, 'bool-key-dict': lambda: {True: 'x', 2: 'y'},
    'pattern-str': lambda: U.re.compile('a'), 'pattern-bytes': lambda: U.re.compile(b'a'), 'match-str': lambda: U.re.match('a', 'a'),
    'match-bytes': lambda: U.re.match(b'a', b'a'), 'NT-good': lambda: U.NT(1, 'a'), 'NT-bad': lambda: U.NT('a', 1), 'DC': lambda: U.DC(1),
    'UCM': lambda: U.UCM(), 'path': lambda: U.pathlib.PurePosixPath('a'),
}
RAW_SRC = {
    'range3': 'range(3)', 'range0': 'range(0)', 'bytearray': "bytearray(b'ab')", 'lambda': '(lambda: 0)', 'builtin-len': 'len',
    'object': 'object()', 'memoryview': "memoryview(b'ab')", 'method': 'PImpl().meth', 'UserList': "collections.UserList([1, 'a'])",
    'UserDict': "collections.UserDict({'k': 1})", 'UserString': "collections.UserString('ab')", 'str-long': "'abc'",
    'genexpr': '(i for i in [1])', 'enumerate': 'enumerate([1])', 'zip': 'zip([1], [2])', 'map': 'map(str, [1])', 'slice': 'slice(1)',
    'ellipsis': '...', 'notimplemented': 'NotImplemented', 'module': 'collections', 'type': 'type',
    'namedtuple': "collections.namedtuple('NT', 'a b')(1, 'x')", 'exception': "ValueError('x')",
    'frozenset-nested': "frozenset([frozenset([1]), frozenset(['a'])])", 'dict-keys-tuple': "{(1, 'a'): [1]}", 'bool-key-dict': "{True: 'x', 2: 'y'}",
    'array': "__import__('array').array('i', [1, 2])", 'partial': "__import__('functools').partial(len)",
    'pattern-str': "re.compile('a')", 'pattern-bytes': "re.compile(b'a')", 'match-str': "re.match('a', 'a')", 'match-bytes': "re.match(b'a', b'a')",
    'NT-good': "NT(1, 'a')", 'NT-bad': "NT('a', 1)", 'DC': 'DC(1)', 'UCM': 'UCM()', 'path': "pathlib.PurePosixPath('a')",
}


async def _acoro():
    return 1


async def _agen():
    yield 1


def mk(o):
    """Build a fresh object.  Raises TypeError for impossible combinations (unhashable set items)."""
    tag = o[0]
    if tag == 'raw':
        return RAW[o[1]]()
    if tag == 'rec':
        return _rec(o[1])
    if tag == 'v':
        return VALS[o[1]]
    if tag == 'new':
        return NEW[o[1]]()
    if tag == 'cls':
        return CLS[o[1]]
    if tag == 'c':
        return C_CARRIERS[o[1]]([mk(i) for i in o[2]])
    if tag == 'm':
        return M_CARRIERS[o[1]]([(mk(k), mk(v)) for k, v in o[2]])
    if tag == 'view':
        return getattr(mk(o[2]), o[1])()
    if tag == 'fn':
        return _fn_f
    if tag == 'o':
        return U.Obj(**{k: mk(v) for k, v in o[1]})
    raise ValueError(o)


def osrc(o) -> str:
    tag = o[0]
    if tag == 'raw':
        return RAW_SRC.get(o[1], f'<{o[1]}>')
    if tag == 'rec':
        return f'__import__("bearmc.model.objs").model.objs._rec({o[1]!r})'
    if tag == 'v':
        return o[1]
    if tag == 'new':
        return f'{o[1]}()'
    if tag == 'cls':
        return 'type(None)' if o[1] == 'NoneType' else o[1]
    if tag == 'c':
        return f'{C_SRC.get(o[1], o[1])}([' + ', '.join(osrc(i) for i in o[2]) + '])'
    if tag == 'm':
        return f'{M_SRC.get(o[1], o[1])}([' + ', '.join(f'({osrc(k)}, {osrc(v)})' for k, v in o[2]) + '])'
    if tag == 'view':
        return f'{osrc(o[2])}.{o[1]}()'
    if tag == 'fn':
        return '(lambda x: x)'
    if tag == 'o':
        return 'Obj(' + ', '.join(f'{k}={osrc(v)}' for k, v in o[1]) + ')'
    raise ValueError(o)


def buildable(o) -> bool:
    try:
        mk(o)
        return True
    except TypeError:
        return False


V = lambda k: ('v', k)
NW = lambda k: ('new', k)

# ---------------------------------------------------------------------------
# Atom witnesses (objects that obviously satisfy the atom) -- first is simplest.
# ---------------------------------------------------------------------------
ATOM_WIT = {
    'int': [V('1'), V('0'), V('True')],
    'bool': [V('True'), V('False')],
    'str': [V("'a'"), V("''"), V("'ab'")],
    'float': [V('1.5'), V('0.0')],
    'complex': [V('1j')],
    'bytes': [V("b'x'"), V("b''")],
    'none': [V('None')],
    'NoneType': [V('None')],
    'object': [V('1'), V("'a'"), V('None'), NW('K'), ('c', 'list', ())],
    'any': [V('1'), V("'a'"), V('None'), NW('K'), ('c', 'list', ())],
    'K': [NW('K'), NW('K2')],
    'K2': [NW('K2')],
    'Other': [NW('Other')],
    'E': [V('E.A'), V('E.B')],
    'N': [V('1'), V('True')],
    'IE': [V('IE.X'), V('IE.Y')],
    'NL': [('c', 'list', ()), ('c', 'list', (V('1'), V('0')))],
    'TL': [('c', 'list', ()), ('c', 'list', (V('1'), V('0')))],
    'TU': [V('1'), V("'a'")],
    'DupA': [NW('DupA')],
    'DupB': [NW('DupB')],
    'TSi': [V('1'), V('True')],
    'TSs': [V("'a'")],
    'NF': [V('1.5'), V('0.0')],
    'TF': [V('1.5'), V('0.0')],
    'T': [V('1'), V("'a'"), NW('K')],
    'TB': [V('1'), V('True')],
    'TC': [V('1'), V("'a'")],
    'P': [NW('PImpl')],
    'G': [NW('G')],
    'GL': [('c', 'GL', ()), ('c', 'GL', (V('1'),))],
    'Hashable': [V('1'), V("'a'"), V('None'), ('c', 'tuple', (V('1'),)), NW('K')],
    'Sized': [V("'a'"), ('c', 'list', ()), ('c', 'list', (V('1'),)), ('m', 'dict', ())],
    'Callable_': [('fn', 'f'), ('cls', 'int'), ('raw', 'builtin-len')],
    'LStr': [V("'a'"), V("''")],
    'SupportsInt': [V('1'), V('1.5'), V('True')],
    'AnyStr': [V("'a'"), V("b'x'")],
    'PatS': [('raw', 'pattern-str')],
    'MatS': [('raw', 'match-str')],
    'TD': [('m', 'dict', ((V("'a'"), V('1')), (V("'b'"), V("'a'"))))],
    'TDo': [('m', 'dict', ()), ('m', 'dict', ((V("'a'"), V('1')),))],
    'NT': [('raw', 'NT-good')],
    'DC': [('raw', 'DC')],
    'GenI': [('c', 'gen', (V('1'),)), ('c', 'gen', ())],
    'CtxI': [('raw', 'UCM')],
    'PathS': [('raw', 'path')],
    'AL': [V('1'), V("'a'"), V('True')],
    'ALgi': [V('None'), ('c', 'list', ()), ('c', 'list', (V('1'), V('0'))), ('c', 'list', (V('1'),))],
    'ALr': [V('1'), ('c', 'list', ()), ('c', 'list', (V('1'),)), ('c', 'list', (('c', 'list', (V('1'),)), V('0'))), ('c', 'list', (('c', 'list', ()),))],
    'Type_': [('cls', 'int'), ('cls', 'K'), ('cls', 'type')],
    'Tuple_': [('c', 'tuple', ()), ('c', 'tuple', (V('1'), V("'a'")))],
    'List_': [('c', 'list', ()), ('c', 'list', (V('1'), V("'a'")))],
    'Dict_': [('m', 'dict', ()), ('m', 'dict', ((V('1'), V("'a'")),))],
    'TupU': [('c', 'tuple', (V('1'),)), ('c', 'tuple', (V('1'), V("'a'"))), ('c', 'tuple', (V('1'), V("'a'"), V("'b'")))],
    'TupUU': [('c', 'tuple', (V('1'), V("'a'")))],
    'InitI': [V('1'), V('True')],
    'FinI': [V('1'), V('0')],
    'GRegI': [('m', 'GReg', ()), ('m', 'GReg', ((V('1'), ('c', 'GL', (V("'a'"),))),)), ('m', 'GReg', ((V('0'), ('c', 'GL', ())), (V('1'), ('c', 'GL', (V("'a'"), V("'b'")))))),],
    'GOutI': [('c', 'GOut', ()), ('c', 'GOut', (('c', 'GL', (V("'a'"),)),)), ('c', 'GOut', (('c', 'GL', ()), ('c', 'GL', (V("'a'"), V("'b'"))))),],
    'list_': [('c', 'list', ()), ('c', 'list', (V('1'), V("'a'")))],
    'dict_': [('m', 'dict', ()), ('m', 'dict', ((V('1'), V("'a'")),))],
    'tuple_': [('c', 'tuple', ()), ('c', 'tuple', (V('1'), V("'a'")))],
}

# Universal pool of root candidates used to find class-level violators.
POOL = [V('1'), V('True'), V("'a'"), V('1.5'), V('None'), V("b'x'"), V('1j'), V('E.A'), NW('K'), NW('K2'), NW('Other'),
        NW('PImpl'), NW('G'), NW('DupA'), NW('DupB'), ('cls', 'int'), ('cls', 'K'), ('fn', 'f'),
        ('c', 'list', ()), ('c', 'list', (V('1'),)), ('c', 'list', (V("'a'"),)), ('c', 'tuple', ()),
        ('c', 'tuple', (V('1'),)), ('c', 'tuple', (V("'a'"), V("'a'"))), ('c', 'set', (V('1'),)),
        ('c', 'frozenset', (V("'a'"),)), ('c', 'deque', (V('1'),)), ('m', 'dict', ()), ('m', 'dict', ((V('1'), V('1')),)),
        ('m', 'dict', ((V("'a'"), V("'a'")),)), ('c', 'gen', (V('1'),)), ('c', 'iter', (V('1'),)),
        ('c', 'USeq', (V('1'),)), ('m', 'UMap', ((V('1'), V('1')),)), ('c', 'USet', (V('1'),)), ('c', 'UColl', (V('1'),)),
        ('m', 'Counter', ((V("'a'"), V('1')),)), ('view', 'keys', ('m', 'dict', ((V('1'), V('1')),))),
        ('view', 'values', ('m', 'dict', ((V('1'), V('1')),))), ('view', 'items', ('m', 'dict', ((V('1'), V('1')),))),
        ('c', 'GL', (V('1'),)), ('c', 'GL', (V("'a'"),)), ('c', 'URev', (V('1'),)), ('c', 'UCont', (V('1'),)),
        ('m', 'defaultdict', ((V('1'), V('1')),)), ('m', 'OrderedDict', ((V('1'), V('1')),)),
        ('m', 'ChainMap', ((V('1'), V('1')),)),
        ('m', 'GReg', ((V('1'), ('c', 'GL', (V('1'),))),)), ('m', 'GReg', ((V("'a'"), ('c', 'GL', (V("'a'"),))),)), ('c', 'GOut', (('c', 'GL', (V('1'),)),)),
        ('c', 'GOut', (V('1'),)), ('raw', 'pattern-str'), ('raw', 'pattern-bytes'), ('raw', 'match-str'), ('raw', 'NT-good'), ('raw', 'NT-bad'), ('raw', 'DC'), ('raw', 'UCM'),
        ('raw', 'path'), ('raw', 'builtin-len'), ('c', 'list', (('c', 'list', (V("'a'"),)),)), ('c', 'tuple', (V("'a'"), V('1'))),
        ('m', 'dict', ((V("'a'"), V('1')), (V("'b'"), V("'a'"))))]

_C1_CARRIERS_TRY = ['list', 'tuple', 'USeq', 'UMSeq', 'FalsyList', 'GL', 'deque', 'set', 'frozenset', 'USet', 'UMSet', 'UColl',
                    'URev', 'UCont', 'UIter', 'gen', 'iter']
_M_CARRIERS_TRY = ['dict', 'FalsyDict', 'defaultdict', 'OrderedDict', 'ChainMap', 'Counter', 'UMap', 'UMMap', 'mappingproxy']
_UNORDERED = {'set', 'frozenset'}


def _spread(ws, m):
    """Pick up to m witnesses, simplest first but structurally diverse (distinct tag/carrier/size)."""
    out, seen = [], set()
    for w in ws:
        key = (w[0], w[1] if w[0] in ('c', 'm', 'view') else None, len(w[2]) if w[0] in ('c', 'm') else None)
        if w[0] in ('v', 'new', 'cls'):
            key = (w[0], type(mk(w)).__name__)
        if key in seen:
            continue
        seen.add(key)
        out.append(w)
        if len(out) >= m:
            return out
    for w in ws:
        if w not in out:
            out.append(w)
            if len(out) >= m:
                break
    return out


def item_lists(ws, maxlen=3, ordered=True):
    """Item tuples over the (<=3) chosen child witnesses: empty, singletons, ordered pairs,
    all permutations of the triple -- every chosen item is first (and at every index) somewhere."""
    ws = list(ws)[:3]
    out = [()]
    out += [(w,) for w in ws]
    if maxlen >= 2:
        if len(ws) >= 2:
            out += [p for p in itertools.permutations(ws, 2)] if ordered else [tuple(ws[:2])]
        else:
            out += [(ws[0], ws[0])] if ws else []
    if maxlen >= 3:
        if len(ws) >= 3:
            out += list(itertools.permutations(ws, 3)) if ordered else [tuple(ws)]
        elif len(ws) == 2:
            out += [(ws[0], ws[1], ws[0]), (ws[1], ws[0], ws[0]), (ws[0], ws[0], ws[1])]
        elif ws:
            out += [(ws[0],) * 3]
    return out


class Gen:
    """Witness / violator generator with memoisation.  ``m`` = child witnesses kept per node,
    ``maxlen`` = container size bound."""

    def __init__(self, m=3, maxlen=3, tower=False, carriers='all'):
        self.m, self.maxlen, self.tower = m, maxlen, tower
        self.carriers = carriers
        self._wit, self._bad = {}, {}

    # -- carriers ---------------------------------------------------------
    def _c1_carriers(self, cls):
        out = []
        for c in _C1_CARRIERS_TRY:
            if isinstance(C_CARRIERS[c]([]), cls):
                out.append(c)
        if self.carriers == 'few':
            out = out[:2] + [c for c in out[2:] if c.startswith('U')][:1]
        return out

    def _m_carriers(self, cls):
        out = [c for c in _M_CARRIERS_TRY if isinstance(M_CARRIERS[c]([]), cls)]
        if self.carriers == 'few':
            out = out[:2] + [c for c in out[2:] if c.startswith('U')][:1]
        return out

    # -- witnesses ----------------------------------------------------------
    def wit(self, t):
        r = self._wit.get(t)
        if r is None:
            cand = self._wit_raw(t)
            r, seen = [], set()
            for o in cand:
                if o in seen:
                    continue
                seen.add(o)
                try:
                    x = mk(o)
                except TypeError:
                    continue
                if HS.sat_all(t, x, self.tower):
                    r.append(o)
            self._wit[t] = r
        return r

    def _wit_raw(self, t):
        tag = t[0]
        if tag == 'a':
            ws = list(ATOM_WIT[t[1]])
            if self.tower and t[1] in ('float', 'complex'):
                ws += [V('1'), V('True')] + ([V('1.5')] if t[1] == 'complex' else [])
            return ws
        if tag == 'u':
            per = [self.wit(m) for m in t[2:]]
            out = [w for tup in itertools.zip_longest(*per) for w in tup if w is not None]
            if t[1] == 'O':
                out.insert(1, V('None'))
            return out
        if tag == 'lit':
            inv = {}
            for k, v in VALS.items():
                inv.setdefault((type(v), v), k)
            return [V(inv[(type(HS.LITVALS[s]), HS.LITVALS[s])]) for s in t[1:]]
        if tag == 'tf':
            per = [_spread(self.wit(m), self.m) for m in t[2:]]
            if any(not p for p in per):
                return []
            base = tuple(p[0] for p in per)
            out = [('c', 'tuple', base)]
            for i, p in enumerate(per):
                for w in p[1:]:
                    out.append(('c', 'tuple', base[:i] + (w,) + base[i + 1:]))
            return out
        if tag == 'tv':
            ws = _spread(self.wit(t[2]), self.m)
            return [('c', 'tuple', il) for il in item_lists(ws, self.maxlen)]
        if tag == 'c1':
            _, cls, kind = HS.C1[t[1]]
            ws = _spread(self.wit(t[2]), self.m)
            out = []
            if kind == 'counter':
                for il in item_lists(ws, self.maxlen):
                    out.append(('m', 'Counter', tuple((k, V(str(1 + j))) for j, k in enumerate(il))))
                return out
            if cls in (HS.cabc.KeysView, HS.cabc.ValuesView):
                which = 'keys' if cls is HS.cabc.KeysView else 'values'
                for mc in ('dict', 'UMap', 'OrderedDict'):
                    for il in item_lists(ws, self.maxlen):
                        if which == 'keys':
                            pairs = tuple((k, V('1')) for k in il)
                        else:
                            pairs = tuple((V(str(j)), v) for j, v in enumerate(il))
                        out.append(('view', which, ('m', mc, pairs)))
                return out
            lists = item_lists(ws, self.maxlen)
            for c in self._c1_carriers(cls):
                for il in lists:
                    out.append(('c', c, il))
            if cls in (HS.cabc.Collection, HS.cabc.Iterable, HS.cabc.Container, HS.cabc.Reversible, HS.cabc.Set):
                # views and mappings are collections of their keys too
                for il in lists[:5]:
                    out.append(('view', 'keys', ('m', 'dict', tuple((k, V('1')) for k in il))))
                    out.append(('m', 'dict', tuple((k, V("'zz'") if False else V('None')) for k in il)))
            if cls in (HS.cabc.Sequence, HS.cabc.Collection, HS.cabc.Iterable, HS.cabc.Container, HS.cabc.Reversible):
                out += [V("'ab'"), V("b'x'"), V("''")]      # str / bytes are sequences of str / int
            return out
        if tag == 'c2':
            _, cls, kind = HS.C2[t[1]]
            ks = _spread(self.wit(t[2]), self.m)
            vs = _spread(self.wit(t[3]), self.m)
            plists = self._pair_lists(ks, vs)
            out = []
            if kind == 'itemsview':
                for mc in ('dict', 'UMap', 'OrderedDict'):
                    for pl in plists:
                        out.append(('view', 'items', ('m', mc, pl)))
                return out
            for c in self._m_carriers(cls):
                for pl in plists:
                    out.append(('m', c, pl))
            return out
        if tag == 'ty':
            return [('cls', n) for n in CLS]
        if tag == 'ann':
            out = list(self.wit(t[1]))
            out += [V('1'), V('0'), V('2'), V("'a'"), V("''"), V('True'), NW('K')]
            return out
        if tag == 'annm':
            return list(self.wit(t[1]))
        if tag == 'call':
            return [('fn', 'f'), ('cls', 'int'), ('cls', 'K')]
        if tag == 'g':
            if t[1] == 'GL':
                ws = _spread(self.wit(t[2]), self.m)
                return [('c', 'GL', il) for il in item_lists(ws, self.maxlen)]
            return [NW('G')]
        raise ValueError(t)

    def _pair_lists(self, ks, vs):
        """Lists of (k, v) pairs with distinct keys: empty, each single pair over the
        first key x each value and each key x first value, two- and three-pair lists in
        every order (so that every chosen pair is first somewhere)."""
        ks = [k for k in ks if _hashable(k)][:3]
        vs = vs[:3]
        out = [()]
        if not ks or not vs:
            return out
        singles = [(ks[0], v) for v in vs] + [(k, vs[0]) for k in ks[1:]]
        out += [(p,) for p in singles]
        if self.maxlen >= 2 and len(ks) >= 2:
            a, b = (ks[0], vs[0]), (ks[1], vs[min(1, len(vs) - 1)])
            out += [(a, b), (b, a)]
        if self.maxlen >= 3 and len(ks) >= 3:
            trip = [(ks[0], vs[0]), (ks[1], vs[min(1, len(vs) - 1)]), (ks[2], vs[min(2, len(vs) - 1)])]
            out += list(itertools.permutations(trip, 3))
        return out

    # -- violators: objects x with NOT sat_some(t, x) ------------------------------
    def bad(self, t):
        r = self._bad.get(t)
        if r is None:
            cand = list(self._bad_raw(t)) + POOL
            r, seen = [], set()
            for o in cand:
                if o in seen:
                    continue
                seen.add(o)
                try:
                    x = mk(o)
                except TypeError:
                    continue
                if not HS.sat_some(t, x, self.tower):
                    r.append(o)
            self._bad[t] = r
        return r

    def _bad_items(self, t, k=2):
        return _spread(self.bad(t), k)

    def odd(self, t, k=4):
        """Conforming objects of unusual kinds -- one-shot iterators, non-collection iterables, user-defined carriers, views --
        one per distinct carrier, non-empty first.  They are placed *next to* a violation, where the code that explains a
        rejection walks over conforming siblings again."""
        pref = ('iter', 'gen', 'UIter', 'UCont', 'URev', 'UColl', 'USeq', 'UMap', 'deque', 'frozenset', 'GL')
        seen, out = set(), []
        ws = self.wit(t)
        ws = sorted(ws, key=lambda w: (0 if w[0] == 'view' else pref.index(w[1]) + 1 if w[0] in ('c', 'm') and w[1] in pref else 99,
                                        0 if (w[0] in ('c', 'm') and w[2]) else 1))
        for w in ws:
            key = (w[0], w[1] if w[0] in ('c', 'm', 'view', 'raw') else None)
            if key in seen or (w[0] in ('c', 'm') and w[1] in ('list', 'dict', 'tuple')) or w[0] in ('v', 'new', 'cls'):
                continue
            seen.add(key)
            out.append(w)
            if len(out) >= k:
                break
        return out

    def _bad_raw(self, t):
        """Structured violators: damage at exactly one position class."""
        tag = t[0]
        if tag in ('a',):
            return []
        if tag == 'u':
            return []          # pool + members' structured violators that violate every member
        if tag == 'lit':
            return [V('1'), V('2'), V('0'), V('True'), V('False'), V("'a'"), V("'b'"), V("''"), V('None'), V('1.0'),
                    V("b'x'"), V('E.A'), V('E.B')]
        if tag == 'tf':
            per = [_spread(self.wit(m), 1) for m in t[2:]]
            out = [('c', 'tuple', ())] if len(t) > 2 else []
            if any(not p for p in per):
                return out
            base = tuple(p[0] for p in per)
            out.append(('c', 'tuple', base + (V('1'),)))                 # length + 1
            if base:
                out.append(('c', 'tuple', base[:-1]))                   # length - 1
                out.append(('c', 'list', base))                         # right items, wrong class
            for i, m in enumerate(t[2:]):
                bs = self._bad_items(m)
                for b in bs:
                    out.append(('c', 'tuple', base[:i] + (b,) + base[i + 1:]))   # exactly slot i bad
                for j, mj in enumerate(t[2:]):                                   # ... next to an unusual conforming sibling
                    if j != i and bs:
                        for w in self.odd(mj, 3):
                            lo, hi = min(i, j), max(i, j)
                            items = list(base)
                            items[i], items[j] = bs[0], w
                            out.append(('c', 'tuple', tuple(items)))
            return out
        if tag == 'tv':
            bs = self._bad_items(t[2])
            return [('c', 'tuple', il) for il in item_lists(bs, self.maxlen) if il]
        if tag == 'c1':
            _, cls, kind = HS.C1[t[1]]
            if kind == 'shallow':
                return []
            bs = self._bad_items(t[2], 3)
            out = []
            if kind == 'counter':
                for il in item_lists(bs, self.maxlen):
                    if il:
                        out.append(('m', 'Counter', tuple((k, V('1')) for k in il)))
                return out
            if cls in (HS.cabc.KeysView, HS.cabc.ValuesView):
                which = 'keys' if cls is HS.cabc.KeysView else 'values'
                for il in item_lists(bs, self.maxlen):
                    if not il:
                        continue
                    pairs = tuple((k, V('1')) for k in il) if which == 'keys' else tuple(
                        (V(str(j)), v) for j, v in enumerate(il))
                    out.append(('view', which, ('m', 'dict', pairs)))
                return out
            for c in self._c1_carriers(cls):
                for il in item_lists(bs, self.maxlen):
                    if il:
                        out.append(('c', c, il))
            return out
        if tag == 'c2':
            _, cls, kind = HS.C2[t[1]]
            gk, gv = _spread(self.wit(t[2]), 2), _spread(self.wit(t[3]), 2)
            bk, bv = self._bad_items(t[2], 2), self._bad_items(t[3], 2)
            plists = []
            for k in bk:                                   # every key bad, values fine
                if gv and _hashable(k):
                    plists.append(((k, gv[0]),))
            for v in bv:                                   # every value bad, keys fine
                if gk and _hashable(gk[0]):
                    plists.append(((gk[0], v),))
            for w in self.odd(t[3], 2):                    # bad key, unusual conforming value
                for k in bk[:1]:
                    if _hashable(k):
                        plists.append(((k, w),))
            hk = [k for k in bk if _hashable(k)]
            if len(hk) >= 2 and gv:
                plists.append(((hk[0], gv[0]), (hk[1], gv[0])))
            hgk = [k for k in gk if _hashable(k)]
            if len(hgk) >= 2 and bv:
                plists.append(((hgk[0], bv[0]), (hgk[1], bv[-1])))
                if hk:
                    plists.append(((hgk[0], bv[0]), (hk[0], gv[0] if gv else bv[0])))   # one bad value, one bad key
            out = []
            if kind == 'itemsview':
                return [('view', 'items', ('m', 'dict', pl)) for pl in plists]
            for c in self._m_carriers(cls):
                for pl in plists:
                    out.append(('m', c, pl))
            return out
        if tag == 'ty':
            return [('cls', n) for n in CLS] + [V('1'), NW('K')]
        if tag == 'ann':
            return list(self.wit(t[1])) + [V('1'), V('0'), V('2'), V("'a'"), V("''"), V('True'), NW('K')]
        if tag == 'annm':
            return list(self._bad_raw(t[1]))
        if tag == 'call':
            return []
        if tag == 'g':
            if t[1] == 'GL':
                bs = self._bad_items(t[2], 3)
                return [('c', 'GL', il) for il in item_lists(bs, self.maxlen) if il]
            return []
        raise ValueError(t)

    # -- exactly one bad item at index i of a top-level sequence ------------------
    def onebad(self, t):
        """[(object term, n, i)] : sequence of length n whose item i is in bad(child) and
        whose other items are witnesses; only for nodes that are sequences in the model
        (list / Sequence / MutableSequence / variadic tuple / GL), and for quasi-iterable hints with sequence objects."""
        tag = t[0]
        if tag == 'tv':
            carriers, child = ['tuple'], t[2]
        elif tag == 'c1' and HS.C1[t[1]][2] == 'seq':
            carriers, child = [c for c in self._c1_carriers(HS.C1[t[1]][1]) if c in ('list', 'tuple', 'USeq', 'UMSeq', 'deque')], t[2]
        elif tag == 'c1' and HS.C1[t[1]][2] == 'quasi':
            # Iterable / Container / Reversible hints: an object that is a sequence is sampled by random access
            carriers, child = [c for c in self._c1_carriers(HS.C1[t[1]][1]) if c in ('list', 'tuple', 'USeq', 'UMSeq', 'deque')], t[2]
        elif tag == 'g' and t[1] == 'GL':
            carriers, child = ['GL'], t[2]
        else:
            return []
        good = _spread(self.wit(child), 1)
        bads = self._bad_items(child, 1)
        if not good or not bads:
            return []
        out = []
        for c in carriers:
            for n in range(1, self.maxlen + 1):
                for i in range(n):
                    items = tuple(bads[0] if j == i else good[0] for j in range(n))
                    out.append((('c', c, items), n, i))
        return out


def _mixed(self, t, nest=True):
    """Objects strictly between sat_some and sat_all (some items fine, exactly one bad, at every position and in
    every applicable carrier): the reference model says nothing about their verdict, which may depend on the draw
    or on iteration order -- they feed the *differential* oracles (entry-point agreement, metamorphic rewriting)."""
    tag = t[0]
    out = []
    if tag == 'tv':
        carriers, child = ['tuple'], t[2]
    elif tag == 'c1' and HS.C1[t[1]][2] in ('seq', 'quasi', 'reit'):
        cls = HS.C1[t[1]][1]
        if cls in (HS.cabc.KeysView, HS.cabc.ValuesView):
            return out
        carriers, child = self._c1_carriers(cls), t[2]
    elif tag == 'g' and t[1] == 'GL':
        carriers, child = ['GL'], t[2]
    elif tag == 'c2' and HS.C2[t[1]][2] == 'map':
        gk, gv = _spread(self.wit(t[2]), 2), _spread(self.wit(t[3]), 1)
        bk, bv = self._bad_items(t[2], 1), self._bad_items(t[3], 1)
        hgk = [k for k in gk if _hashable(k)]
        pls = []
        if len(hgk) >= 2 and gv and bv:
            pls += [((hgk[0], gv[0]), (hgk[1], bv[0])), ((hgk[0], bv[0]), (hgk[1], gv[0]))]
        if hgk and gv and bk and _hashable(bk[0]):
            pls += [((hgk[0], gv[0]), (bk[0], gv[0])), ((bk[0], gv[0]), (hgk[0], gv[0]))]
        for c in self._m_carriers(HS.C2[t[1]][1]):
            for pl in pls:
                out.append(('m', c, pl))
        if nest and gv and hgk:
            for mo in self.mixed(t[3], nest=False)[:4]:
                out.append(('m', 'dict', ((hgk[0], mo),)))
        return [o for o in out if buildable(o)]
    elif tag == 'u':
        for m in t[2:]:
            out += self.mixed(m, nest=False)[:6]
        return out
    elif tag in ('ann', 'annm'):
        return self.mixed(t[1], nest)
    elif tag == 'tf':
        per = [_spread(self.wit(m), 1) for m in t[2:]]
        if all(per):
            base = tuple(p[0] for p in per)
            for i, m in enumerate(t[2:]):
                for mo in self.mixed(m, nest=False)[:3]:
                    out.append(('c', 'tuple', base[:i] + (mo,) + base[i + 1:]))
        return out
    else:
        return out
    good = _spread(self.wit(child), 2)
    bads = self._bad_items(child, 1)
    if good and bads:
        for c in carriers:
            if c in ('gen', 'iter', 'UCont'):
                continue
            for n in (2, 3):
                for i in range(n):
                    items = tuple(bads[0] if j == i else good[min(j, len(good) - 1) if j < i else 0] for j in range(n))
                    o = ('c', c, items)
                    if buildable(o):
                        out.append(o)
        for w in self.odd(child, 3):
            for c in carriers[:3]:
                for items in ((w, bads[0]), (bads[0], w)):
                    o = ('c', c, items)
                    if c not in ('gen', 'iter', 'UCont') and buildable(o):
                        out.append(o)
    if nest:
        for mo in self.mixed(child, nest=False)[:4]:
            for c in carriers[:2]:
                o = ('c', c, (mo,))
                if buildable(o):
                    out.append(o)
    return out


Gen.mixed = _mixed


def _hashable(o) -> bool:
    try:
        hash(mk(o))
        return True
    except TypeError:
        return False


def selftest():
    g = Gen()
    A = lambda n: ('a', n)
    li = ('c1', 'list', A('int'))
    assert ('c', 'list', (V('1'), V('0'))) in g.wit(li)
    assert all(HS.sat_all(li, mk(o)) for o in g.wit(li))
    assert all(not HS.sat_some(li, mk(o)) for o in g.bad(li))
    assert ('c', 'list', (V("'a'"),)) in g.bad(li), g.bad(li)[:5]
    ob = g.onebad(li)
    assert ob and all(HS.sat_some(li, mk(o)) and not HS.sat_all(li, mk(o)) for o, n, i in ob if n > 1)
    d = ('c2', 'dict', A('str'), li)
    assert g.wit(d) and g.bad(d)
    for o in g.wit(d) + g.bad(d):
        eval(osrc(o), dict(U.NAMESPACE))
    return len(g.wit(d)) + len(g.bad(d))
