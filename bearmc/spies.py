"""Instrumented containers for C09 (cost) and C10 (non-interference).

Every class logs the *name* of each protocol method invoked on it into a shared per-run log ``LOG`` as
(object label, method name).  Items handed out by these containers can themselves be counting containers, so every
nesting level is observed.
"""
from __future__ import annotations

import collections
import collections.abc as cabc

LOG = []


def _log(self, name):
    LOG.append((getattr(self, '_label', type(self).__name__), name))


class CountIter:
    """Iterator returned by the counting containers: logs __next__ against the container's label."""
    def __init__(self, owner, it):
        self._owner, self._it = owner, it

    def __iter__(self):
        return self

    def __next__(self):
        _log(self._owner, '__next__')
        return next(self._it)


def _mk(base, name, mapping=False):
    ns = {}

    def __getitem__(self, i):
        _log(self, '__getitem__')
        return base.__getitem__(self, i)

    def __iter__(self):
        _log(self, '__iter__')
        return CountIter(self, base.__iter__(self))

    def __len__(self):
        _log(self, '__len__')
        return base.__len__(self)

    def __contains__(self, x):
        _log(self, '__contains__')
        return base.__contains__(self, x)

    def __repr__(self):
        _log(self, '__repr__')
        return f'<{name} of {base.__len__(self)}>'

    def __reversed__(self):
        _log(self, '__reversed__')
        return base.__reversed__(self)

    def __eq__(self, o):
        _log(self, '__eq__')
        return base.__eq__(self, o)

    def __bool__(self):
        _log(self, '__bool__')
        return base.__len__(self) > 0

    def __ne__(self, o):
        _log(self, '__ne__')
        return base.__ne__(self, o)
    ns.update(__iter__=__iter__, __len__=__len__, __contains__=__contains__, __repr__=__repr__, __eq__=__eq__, __bool__=__bool__, __ne__=__ne__)
    if hasattr(base, '__getitem__'):
        ns['__getitem__'] = __getitem__
    if hasattr(base, '__reversed__'):
        ns['__reversed__'] = __reversed__
    if base in (list, dict, set, collections.deque, collections.OrderedDict, collections.defaultdict):
        ns['__hash__'] = None
    else:
        ns['__hash__'] = lambda self: id(self)
    if mapping:
        for meth in ('keys', 'values', 'items'):
            def f(self, meth=meth):
                _log(self, meth)
                view = getattr(base, meth)(self)
                return CountView(self, view, meth)
            ns[meth] = f

        def get(self, k, d=None):
            _log(self, 'get')
            return base.get(self, k, d)

        def __missing__(self, k):
            _log(self, '__missing__')
            raise KeyError(k)
        ns['get'] = get
        if base is collections.defaultdict:
            def __missing__(self, k):           # noqa: F811
                _log(self, '__missing__')
                return collections.defaultdict.__missing__(self, k)
            ns['__missing__'] = __missing__
    cls = type(name, (base,), ns)
    return cls


class CountView:
    """keys()/values()/items() view of a counting mapping: logs iteration against the mapping."""
    def __init__(self, owner, view, kind):
        self._owner, self._view, self._kind = owner, view, kind

    def __iter__(self):
        _log(self._owner, f'{self._kind}.__iter__')
        return CountIter(self._owner, iter(self._view))

    def __len__(self):
        _log(self._owner, f'{self._kind}.__len__')
        return len(self._view)

    def __contains__(self, x):
        _log(self._owner, f'{self._kind}.__contains__')
        return x in self._view


CList = _mk(list, 'CList')
CTuple = _mk(tuple, 'CTuple')
CSet = _mk(set, 'CSet')
CFrozenSet = _mk(frozenset, 'CFrozenSet')
CDeque = _mk(collections.deque, 'CDeque')
CDict = _mk(dict, 'CDict', mapping=True)
CDefaultDict = _mk(collections.defaultdict, 'CDefaultDict', mapping=True)
COrderedDict = _mk(collections.OrderedDict, 'COrderedDict', mapping=True)


class _AbcBase:
    def __ne__(self, o):
        _log(self, '__ne__')
        return self is not o

    def __init__(self, items, label=None):
        self._d = list(items)
        if label:
            self._label = label

    def __repr__(self):
        _log(self, '__repr__')
        return f'<{type(self).__name__} of {len(self._d)}>'


class CSeq(_AbcBase, cabc.Sequence):
    def __getitem__(self, i):
        _log(self, '__getitem__')
        return self._d[i]

    def __len__(self):
        _log(self, '__len__')
        return len(self._d)

    def __iter__(self):
        _log(self, '__iter__')
        return CountIter(self, iter(self._d))

    def __contains__(self, x):
        _log(self, '__contains__')
        return x in self._d

    def __reversed__(self):
        _log(self, '__reversed__')
        return reversed(self._d)


class CColl(_AbcBase, cabc.Collection):
    def __len__(self):
        _log(self, '__len__')
        return len(self._d)

    def __iter__(self):
        _log(self, '__iter__')
        return CountIter(self, iter(self._d))

    def __contains__(self, x):
        _log(self, '__contains__')
        return x in self._d


class CAbcSet(_AbcBase, cabc.Set):
    def __len__(self):
        _log(self, '__len__')
        return len(self._d)

    def __iter__(self):
        _log(self, '__iter__')
        return CountIter(self, iter(self._d))

    def __contains__(self, x):
        _log(self, '__contains__')
        return x in self._d


class CMap(cabc.Mapping):
    def __ne__(self, o):
        _log(self, '__ne__')
        return self is not o

    def __init__(self, pairs, label=None):
        self._d = dict(pairs)
        if label:
            self._label = label

    def __getitem__(self, k):
        _log(self, '__getitem__')
        return self._d[k]

    def __len__(self):
        _log(self, '__len__')
        return len(self._d)

    def __iter__(self):
        _log(self, '__iter__')
        return CountIter(self, iter(self._d))

    def __contains__(self, x):
        _log(self, '__contains__')
        return x in self._d

    def keys(self):
        _log(self, 'keys')
        return CountView(self, self._d.keys(), 'keys')

    def values(self):
        _log(self, 'values')
        return CountView(self, self._d.values(), 'values')

    def items(self):
        _log(self, 'items')
        return CountView(self, self._d.items(), 'items')

    def __repr__(self):
        _log(self, '__repr__')
        return f'<CMap of {len(self._d)}>'


# --- one-shot / non-collection iterables (C10) ---------------------------------------------------------------
class OneShot:
    def __ne__(self, o):
        _log(self, '__ne__')
        return self is not o

    """Plain one-shot iterator (no __len__, no __contains__)."""
    def __init__(self, items, label='OneShot'):
        self._it = iter(list(items))
        self._label = label

    def __iter__(self):
        _log(self, '__iter__')
        return self

    def __next__(self):
        _log(self, '__next__')
        return next(self._it)

    def __repr__(self):
        _log(self, '__repr__')
        return '<OneShot>'


class SizedOneShot(OneShot):
    """One-shot stream that knows its length (like a data loader / progress bar) but is NOT a Collection."""
    def __init__(self, items, label='SizedOneShot'):
        items = list(items)
        super().__init__(items, label)
        self._n = len(items)

    def __len__(self):
        _log(self, '__len__')
        return self._n


class CursorLike(SizedOneShot):
    """One-shot iterator that also defines __len__ and __contains__ (a result-cursor): it IS a Collection structurally."""
    def __init__(self, items, label='CursorLike'):
        items = list(items)
        super().__init__(items, label)
        self._items = items

    def __contains__(self, x):
        _log(self, '__contains__')
        return x in self._items


class OnlyIterable:
    def __ne__(self, o):
        _log(self, '__ne__')
        return self is not o

    """Re-iterable but neither sized nor a container."""
    def __init__(self, items, label='OnlyIterable'):
        self._d = list(items)
        self._label = label

    def __iter__(self):
        _log(self, '__iter__')
        return CountIter(self, iter(self._d))

    def __repr__(self):
        _log(self, '__repr__')
        return '<OnlyIterable>'


class OnlyContainer:
    def __ne__(self, o):
        _log(self, '__ne__')
        return self is not o

    def __init__(self, items, label='OnlyContainer'):
        self._d = list(items)
        self._label = label

    def __contains__(self, x):
        _log(self, '__contains__')
        return x in self._d

    def __repr__(self):
        _log(self, '__repr__')
        return '<OnlyContainer>'


class OnlyReversible:
    def __ne__(self, o):
        _log(self, '__ne__')
        return self is not o

    def __init__(self, items, label='OnlyReversible'):
        self._d = list(items)
        self._label = label

    def __iter__(self):
        _log(self, '__iter__')
        return CountIter(self, iter(self._d))

    def __reversed__(self):
        _log(self, '__reversed__')
        return reversed(self._d)

    def __repr__(self):
        _log(self, '__repr__')
        return '<OnlyReversible>'


def with_label(obj, label):
    try:
        obj._label = label
    except (AttributeError, TypeError):
        pass
    return obj
