"""C13 -- decorating a class equals decorating its methods; no-op cases are identities.

E1 over class programs: every combination of <= 3 (4 thorough) members out of a member alphabet (plain / class / static
method, property get and get+set, functools.wraps closure, unannotated, string-annotated, nested class up to 3 deep,
dataclass field) with or without a base class and @dataclass, optionally defined inside a function whose locals the
string hints name.  Three copies of each program are built from the same source: PLAIN (nothing decorated), CLASS
(beartype applied to the outermost class) and MEMBER (@beartype written on every member).  Oracle: CLASS == MEMBER call
for call (outcome classes for good and bad arguments through instance and class), descriptor kinds / names / docs /
signatures equal PLAIN's, __wrapped__ is the member that was decorated, inherited members untouched, idempotence,
identity for the documented no-op cases (incl. a child interpreter started with -O).
"""
from __future__ import annotations

import inspect
import itertools
import subprocess
import sys
import warnings

PROPERTY = 'C13'
NSHARDS = 48
_STATE = {}

# member alphabet: name -> (source lines inside the class body with {D} = decorator slot, call specs)
# a call spec: (how, good argument source, bad argument source); how in inst / cls
MEMBERS = {
    'plain': ("{D}def plain(self, x: int) -> int:\n    'doc of plain'\n    return x\n", [('inst', 'plain', '1', "'s'")]),
    'plain_ret': ("{D}def plain_ret(self, x) -> int:\n    return x\n", [('inst', 'plain_ret', '1', "'s'")]),
    'cm': ("{D}@classmethod\ndef cm(cls, x: int) -> int:\n    'doc of cm'\n    return x\n", [('inst', 'cm', '1', "'s'"), ('cls', 'cm', '1', "'s'")]),
    'sm': ("{D}@staticmethod\ndef sm(x: int) -> int:\n    return x\n", [('inst', 'sm', '1', "'s'"), ('cls', 'sm', '1', "'s'")]),
    'prop': ("{D}@property\ndef prop(self) -> int:\n    'doc of prop'\n    return self._v\n", [('getattr', 'prop', '1', "'s'")]),
    'prop_rw': ("@property\ndef prw(self) -> int:\n    return self._v\n{D}@prw.setter\ndef prw(self, v: int) -> None:\n    self._v = v\n",
                [('getattr', 'prw', '1', "'s'"), ('setattr', 'prw', '1', "'s'")]),
    'prop_gd': ("@property\ndef pgd(self) -> int:\n    return self._v\n{D}@pgd.deleter\ndef pgd(self) -> None:\n    return self._v\n",
                [('getattr', 'pgd', '1', "'s'"), ('delattr', 'pgd', 'None', '1')]),
    'prop_gsd': ("@property\ndef pall(self) -> int:\n    return self._v\n@pall.setter\ndef pall(self, v: int) -> None:\n    self._v = v\n"
                 "{D}@pall.deleter\ndef pall(self) -> None:\n    return self._v\n",
                 [('getattr', 'pall', '1', "'s'"), ('setattr', 'pall', '1', "'s'"), ('delattr', 'pall', 'None', '1')]),
    'prop_sd_unann_get': ("@property\ndef pua(self):\n    return self._v\n@pua.setter\ndef pua(self, v: int) -> None:\n    self._v = v\n"
                          "{D}@pua.deleter\ndef pua(self) -> None:\n    return self._v\n",
                          [('getattr', 'pua', '1', "'s'"), ('setattr', 'pua', '1', "'s'"), ('delattr', 'pua', 'None', '1')]),
    'tower': ("{D}def tower(self, x: float) -> float:\n    return x\n", [('inst', 'tower', '1.5', "'s'"), ('inst', 'tower', '1', 'None')]),
    'badhint': ("{D}def badhint(self, x: 0xBAD) -> int:\n    return x\n", [('inst', 'badhint', '1', "'s'")]),
    'unann': ("{D}def unann(self, x):\n    return x\n", [('inst', 'unann', '1', "'s'")]),
    'wraps': ("{D}@deco\ndef wrapped(self, x: int) -> int:\n    return x\n", [('inst', 'wrapped', '1', "'s'")]),
    'strhint': ("{D}def strhint(self, x: 'Local') -> 'Local':\n    return x\n", [('inst', 'strhint', 'Local()', '1')]),
    'selfhint': ("{D}def selfhint(self, other: 'Outer') -> 'Outer':\n    return other\n", [('inst', 'selfhint', 'Outer()', '1')]),
    'nocheck': ("{D}@no_type_check\ndef nocheck(self, x: int) -> int:\n    return x\n", [('inst', 'nocheck', '1', "'s'")]),
}
NEVER_REJECT = ('unann', 'nocheck', 'badhint')
CONFS = {
    'default': None,
    'warn': 'BeartypeConf(warning_cls_on_decorator_exception=BeartypeClawDecorWarning)',
    'tower': 'BeartypeConf(is_pep484_tower=True)',
    'warn+tower': 'BeartypeConf(warning_cls_on_decorator_exception=BeartypeClawDecorWarning, is_pep484_tower=True)',
    # two steps: the no-op strategy first, the default decoration afterwards (whatever the first step leaves behind must be
    # the same on the class route and on the member route)
    'O0-then-default': 'BeartypeConf(strategy=BeartypeStrategy.O0)',
}
NESTED = {
    'nest1': 1, 'nest2': 2, 'nest3': 3,
}


def indent(src, n):
    pad = '    ' * n
    return ''.join(pad + l + '\n' if l else '\n' for l in src.splitlines())


def class_source(members, variant, base, dataclass, in_function, nest):
    """Source of one program.  variant in PLAIN / CLASS / MEMBER."""
    D = '@bt\n' if variant == 'MEMBER' else ''
    body = ''
    if dataclass:
        body += 'fld: int = 0\n'
    else:
        body += 'def __init__(self, v=1):\n    self._v = v\n'
    for m in members:
        body += MEMBERS[m][0].replace('{D}', D)
    if dataclass:
        body += '@property\ndef _v(self):\n    return getattr(self, "_vv", 1)\n@_v.setter\ndef _v(self, v):\n    self._vv = v\n'
    if nest:
        meths = "{D}def deep(self, x: 'Local') -> 'Local':\n    return x\n{D}def deepint(self, x: int) -> int:\n    return x\n".replace('{D}', D)
        inner = meths
        for lvl in range(nest, 0, -1):
            # every nesting level defines the methods (and contains the next level)
            inner = f'class N{lvl}:\n' + indent((meths if lvl != nest else '') + inner, 1) if lvl != nest else f'class N{lvl}:\n' + indent(inner, 1)
        body += inner
    head = ''
    if base == 'falsy':
        head += 'class FalsyMeta(type):\n    def __bool__(cls):\n        return False\n    def __len__(cls):\n        return 0\n'
    elif base:
        head += 'class Base:\n    def inherited(self, x: int) -> int:\n        return x\n    def __init__(self, v=1):\n        self._v = v\n'
    cls = ('@bt\n' if variant == 'CLASSSRC' else '') + ('@dataclass\n' if dataclass else '') + f'class Outer{"(metaclass=FalsyMeta)" if base == "falsy" else "(Base)" if base else ""}:\n' + indent(body, 1)
    src = 'class Local:\n    pass\n' + head + cls
    if in_function:
        src = 'def factory():\n' + indent(src + 'return Outer, Local, ' + ('Base' if base and base != 'falsy' else 'None') + '\n', 1) + 'Outer, LocalRef, Base = factory()\n'
    else:
        src += 'LocalRef = Local\nBase = ' + ('Base' if base and base != 'falsy' else 'None') + '\n'
    return src


PRELUDE = ('import functools\nfrom dataclasses import dataclass\nfrom typing import no_type_check\nfrom beartype import beartype, BeartypeConf\n'
           'from beartype.roar import BeartypeClawDecorWarning\n'
           'def deco(fn):\n    @functools.wraps(fn)\n    def closure(*args, **kwargs):\n        return fn(*args, **kwargs)\n    closure.marker = "set-by-deco"\n    return closure\n')


def conf_prelude(conf):
    c = CONFS[conf]
    if conf == 'O0-then-default':
        return f'from beartype import BeartypeStrategy\nCONF = {c}\nbt0 = beartype(conf=CONF)\nbt = lambda o: beartype(bt0(o))\n'
    return 'bt = beartype\n' if c is None else f'CONF = {c}\nbt = beartype(conf=CONF)\n'


def build(src, name, conf='default'):
    src = conf_prelude(conf) + src
    ns = {'__name__': name}
    mod = type(sys)(name)
    mod.__dict__.update(ns)
    sys.modules[name] = mod
    exec(compile(PRELUDE + src, f'<{name}>', 'exec', dont_inherit=True), mod.__dict__)
    return mod.__dict__


def unwrap_descr(d):
    """function(s) behind a class-dict entry"""
    if isinstance(d, (classmethod, staticmethod)):
        return [d.__func__]
    if isinstance(d, property):
        return [f for f in (d.fget, d.fset, d.fdel) if f is not None]
    if inspect.isfunction(d):
        return [d]
    return []


def outcome(thunk):
    from beartype.roar import BeartypeCallHintViolation, BeartypeCallHintForwardRefException
    try:
        thunk()
        return 'ok'
    except BeartypeCallHintViolation as e:
        return 'viol:' + type(e).__name__
    except Exception as e:
        return 'E:' + type(e).__name__


def observe_calls(ns, members, nest):
    Outer, Local = ns['Outer'], ns['LocalRef']      # (a function-local class is never a module global)
    out = []
    env = {'Local': Local, 'Outer': Outer}
    for m in members:
        for how, attr, good, bad in MEMBERS[m][1]:
            for argsrc in (good, bad):
                arg = eval(argsrc, env)
                if how == 'inst':
                    out.append((m, how, argsrc, outcome(lambda: getattr(Outer(), attr)(arg))))
                elif how == 'cls':
                    out.append((m, how, argsrc, outcome(lambda: getattr(Outer, attr)(arg))))
                elif how == 'getattr':
                    def th():
                        o = Outer()
                        o._v = arg
                        return getattr(o, attr)
                    out.append((m, how, argsrc, outcome(th)))
                elif how == 'delattr':
                    def th():
                        o = Outer()
                        o._v = arg
                        delattr(o, attr)
                    out.append((m, how, argsrc, outcome(th)))
                else:
                    def th():
                        o = Outer()
                        setattr(o, attr, arg)
                    out.append((m, how, argsrc, outcome(th)))
    if nest:
        c = Outer
        for lvl in range(1, nest + 1):
            c = getattr(c, f'N{lvl}')
            for attr, good, bad in (('deep', Local(), 1), ('deepint', 1, 's')):
                for lab, a in (('good', good), ('bad', bad)):
                    out.append((f'level{lvl}of{nest}.{attr}', 'inst', lab, outcome(lambda: getattr(c(), attr)(a))))
    return out


def check_program(prog, part):
    members, base, dataclass, in_function, nest, conf = prog
    viol, cov = part['violations'], part['cover']
    key = f'{"+".join(members)}{"+falsymeta" if base == "falsy" else "+base" if base else ""}{"+dc" if dataclass else ""}{"+infn" if in_function else ""}{"+nest%d" % nest if nest else ""}{"@" + conf if conf != "default" else ""}'
    k = cov['states']
    srcs = {v: class_source(members, v, base, dataclass, in_function, nest) for v in ('PLAIN', 'CLASS', 'CLASSSRC', 'MEMBER')}
    rep = {'program': key, 'source_member_variant': PRELUDE + conf_prelude(conf) + srcs['MEMBER']}
    with warnings.catch_warnings():
        warnings.simplefilter('ignore')
        try:
            P = build(srcs['PLAIN'], f'c13_plain_{k}', conf)
            C = build(srcs['CLASS'], f'c13_class_{k}', conf)
            before = dict(C['Outer'].__dict__)
            base_before = dict(C['Base'].__dict__) if base and base != 'falsy' else None
            nested_before = {}
            c = C['Outer']
            for lvl in range(1, nest + 1):
                c = getattr(c, f'N{lvl}')
                nested_before[lvl] = dict(c.__dict__)
            beartype = C['bt']
            ret = beartype(C['Outer'])
        except Exception as e:
            viol.append((f'class-decorate:{type(e).__name__}:{key}', f'beartype(class) raised {type(e).__name__}: {str(e)[:200]}', rep))
            return
        try:
            M = build(srcs['MEMBER'], f'c13_member_{k}', conf)
        except Exception as e:
            viol.append((f'member-decorate:{type(e).__name__}:{key}', f'per-member @beartype raised {type(e).__name__}: {str(e)[:200]} while decorating the class as a whole works', rep))
            return
        cov['evaluations'] += 1
        if ret is not C['Outer']:
            viol.append((f'class-identity:{key}', f'beartype(C) is not C (returned {ret!r})', rep))
            return
        # call-for-call equivalence: @beartype written on the outermost class (where it is defined) vs on every member
        try:
            CS = build(srcs['CLASSSRC'], f'c13_classsrc_{k}', conf)
        except Exception as e:
            viol.append((f'class-decorate-in-source:{type(e).__name__}:{key}', f'@beartype on the class raised {type(e).__name__}: {str(e)[:200]}', rep))
            return
        if not isinstance(CS['Outer'], type):
            viol.append((f'class-identity-in-source:{key}', f'@beartype on the class statement bound the name to {CS["Outer"]!r}, not to the class', rep))
            return
        oc, om = observe_calls(CS, members, nest), observe_calls(M, members, nest)
        if not in_function:
            # decorating the finished class object from outside must behave the same at module level
            op = observe_calls(C, members, nest)
            if op != oc:
                viol.append((f'class-posthoc-vs-insource:{key}', f'beartype(C) after the fact differs from @beartype on the class statement: {[(a, b) for a, b in zip(op, oc) if a != b][:3]}', rep))
        cov['calls'] += len(oc)
        if oc != om:
            diff = [(a, b) for a, b in zip(oc, om) if a != b][:3]
            viol.append((f'class-vs-members:{key}', f'decorating the class and decorating each member differ: (class route, member route) = {diff}', rep))
        # every member with checkable annotations rejects its bad argument (the wrapper really checks: this is what
        # "decorating each function, classmethod, staticmethod and property" means), on both routes
        for route, obs in ((('class', oc), ('member', om)) if conf != 'O0-then-default' else ()):
            for (m, how, argsrc, res) in obs:
                if m in MEMBERS and m not in NEVER_REJECT and m != 'tower' and (m, how) != ('prop_sd_unann_get', 'getattr') and \
                        any(argsrc == bad for (_h, _a, _g, bad) in MEMBERS[m][1] if _h == how) and not res.startswith('viol:'):
                    viol.append((f'unchecked-member:{route}:{m}:{how}', f'{key}: {route} route: {m} via {how} accepted the bad value {argsrc} ({res})', rep))
        # descriptor kinds, names, docs, signatures vs PLAIN; __wrapped__ is the decorated member
        after = C['Outer'].__dict__
        for name, d0 in before.items():
            d1 = after.get(name)
            p = P['Outer'].__dict__.get(name)
            if type(d1) is not type(d0):
                viol.append((f'descriptor-kind:{name}:{type(d0).__name__}->{type(d1).__name__}', f'{key}: class attribute {name} changed kind from {type(d0).__name__} to {type(d1).__name__}', rep))
                continue
            f0s, f1s, fps = unwrap_descr(d0), unwrap_descr(d1), unwrap_descr(p)
            for f0, f1, fp in zip(f0s, f1s, fps):
                if f1 is f0:
                    # left undecorated: only the documented identity cases (unannotated, @no_type_check) and members
                    # whose decoration failed with the configured warning may stay as they are
                    if getattr(f0, '__annotations__', None) and not getattr(f0, '__no_type_check__', False) and name != 'badhint' and conf != 'O0-then-default':
                        viol.append((f'not-wrapped:{name}:{f0.__name__}', f'{key}: annotated function {f0.__qualname__} behind class attribute {name} was left undecorated', rep))
                    continue
                if getattr(f1, '__wrapped__', None) is not f0:
                    viol.append((f'wrapped:{name}', f'{key}: {name}.__wrapped__ is {getattr(f1, "__wrapped__", None)!r}, not the member that was decorated ({f0!r})', rep))
                for a in ('__name__', '__qualname__', '__doc__'):
                    if getattr(f1, a, None) != getattr(f0, a, None):
                        viol.append((f'metadata:{a}:{name}', f'{key}: {name}.{a} = {getattr(f1, a, None)!r}, original {getattr(f0, a, None)!r}', rep))
                if str(inspect.signature(f1)) != str(inspect.signature(f0)):
                    viol.append((f'signature:{name}', f'{key}: signature {inspect.signature(f1)} != {inspect.signature(f0)}', rep))
                for a, v in vars(f0).items():
                    if a != '__wrapped__' and getattr(f1, a, None) != v:
                        viol.append((f'attribute-lost:{name}.{a}', f'{key}: attribute {a!r} of the decorated member is not carried by the wrapper', rep))
            if name in ('unann', 'nocheck') and d1 is not d0:
                viol.append((f'noop-not-identity:{name}', f'{key}: {name} has no checkable annotations but was replaced', rep))
        for name in before:
            wc = [hasattr(f, '__wrapped__') for f in unwrap_descr(after.get(name))]
            wm = [hasattr(f, '__wrapped__') for f in unwrap_descr(M['Outer'].__dict__.get(name))]
            if name != 'wrapped' and not name.startswith('__') and wc != wm:      # (dataclass-generated methods have no member route)
                viol.append((f'wrapped-status:{name}', f'{key}: functions behind {name} wrapped on the class route {wc}, on the member route {wm}', rep))
        if base and base != 'falsy':
            base_after = {k: v for k, v in C['Base'].__dict__.items() if k != '__annotations__'}     # CPython creates it lazily on read
            base_before.pop('__annotations__', None)
            if base_after != base_before or C['Outer'].inherited is not C['Base'].inherited or 'inherited' in after:
                viol.append((f'inherited-touched:{key}', 'decorating the subclass changed / copied an inherited method', rep))
        # idempotence
        snap1 = dict(C['Outer'].__dict__)
        again = beartype(C['Outer'])
        snap2 = dict(C['Outer'].__dict__)
        # "returns it unchanged": same class object, same attribute names, same descriptor kinds, and the very same
        # functions behind every attribute (descriptor objects themselves may be rebuilt around them)
        changed = [n for n in snap1 if n not in snap2 or type(snap2[n]) is not type(snap1[n]) or
                   any(a is not b for a, b in zip(unwrap_descr(snap1[n]), unwrap_descr(snap2[n]))) or
                   len(unwrap_descr(snap1[n])) != len(unwrap_descr(snap2[n]))]
        changed = [n for n in changed if n != '__sizeof__']          # beartype's own "already decorated" marker
        if again is not C['Outer'] or set(snap1) != set(snap2) or changed:
            viol.append((f'class-idempotence:{key}', f'decorating an already decorated class changed it: {changed or sorted(set(snap1) ^ set(snap2))}', rep))
        for name, d1 in snap1.items():
            if name == '__sizeof__':
                continue                       # beartype's own marker
            for f1 in unwrap_descr(d1):
                if hasattr(f1, '__wrapped__') and beartype(f1) is not f1:
                    viol.append((f'wrapper-idempotence:{name}', f'{key}: beartype(wrapper) is not wrapper', rep))
    cov['states'] += 1


def programs(tier):
    return [p + ('default',) for p in _programs(tier)] + conf_programs(tier)


def conf_programs(tier):
    """the configuration axis: every member alone under every configuration; an undecoratable member before and after
    every other member under the warn-instead-of-raise configurations (what the import hook uses)"""
    out = []
    # a class that is falsy (metaclass __bool__ / __len__): beartype(cls) must still decorate and return it
    for m in ('plain', 'cm', 'prop', 'sm'):
        out.append(((m,), 'falsy', False, False, 0, 'default'))
        out.append(((m, 'plain_ret'), 'falsy', False, False, 1, 'default'))
    out.append((('plain',), 'falsy', False, False, 0, 'tower'))
    for conf in CONFS:
        if conf == 'default':
            continue
        if conf == 'O0-then-default':
            for m in MEMBERS:
                if m not in ('badhint', 'strhint'):
                    out.append(((m,), False, False, False, 0, conf))
            out.append((('plain', 'cm', 'sm'), True, False, False, 0, conf))
            out.append((('plain',), False, False, False, 2, conf))
            continue
        for m in MEMBERS:
            if m == 'badhint' and 'warn' not in conf:
                continue
            infn = m == 'strhint'
            out.append(((m,), False, False, infn, 0, conf))
        if 'warn' in conf:
            for m in MEMBERS:
                if m == 'badhint':
                    continue
                infn = m == 'strhint'
                out.append((('badhint', m), False, False, infn, 0, conf))
                out.append(((m, 'badhint'), False, False, infn, 0, conf))
                if tier != 'quick':
                    out.append((('badhint', m), True, False, infn, 0, conf))
                    out.append(((m, 'badhint', 'plain_ret'), False, False, infn, 0, conf))
            for nest in (1, 2):
                out.append((('badhint', 'plain'), False, False, False, nest, conf))
        else:
            out.append((('tower',), False, False, False, 2, conf))
    return out


def _programs(tier):
    names = [n for n in MEMBERS if n != 'badhint']
    maxm = 2 if tier == 'quick' else 3
    out = []
    for n in range(1, maxm + 1):
        for ms in itertools.combinations(names, n):
            needs_fn = 'strhint' in ms
            for base in (False, True):
                for dc in (False, True):
                    if dc and ('prop' in ms or 'prop_rw' in ms):
                        continue
                    for infn in ((True,) if needs_fn else (False, True)):
                        if tier == 'quick' and n == 2 and (base and dc):
                            continue
                        out.append((ms, base, dc, infn, 0))
    for nest in (1, 2, 3):
        for infn in (True, False):
            for ms in (('plain',), ('cm', 'strhint') if infn else ('cm',), ('sm', 'selfhint')):
                out.append((ms, False, False, infn, nest))
                out.append((ms, True, False, infn, nest))
    return out


NOOP_SCRIPT = r'''
import sys, typing
from beartype import beartype, BeartypeConf, BeartypeStrategy
def mk():
    def ann(x: int) -> int: return x
    return ann
def unann(x): return x
@typing.no_type_check
def nc(x: int) -> int: return x
def mkK():
    class K:
        def m(self, x: int) -> int: return x
    return K
O0 = BeartypeConf(strategy=BeartypeStrategy.O0)
def same_class(K, d):
    # same class object; attribute set unchanged apart from beartype's own "__sizeof__" marker; same functions
    d2 = dict(K.__dict__)
    return set(d) | {'__sizeof__'} == set(d2) | {'__sizeof__'} and all(d[k] is d2[k] for k in d if k != '__sizeof__')
def rejects(f):
    try:
        f('s'); return False
    except Exception as e:
        return 'Violation' in type(e).__name__
a1, a2, a3, a4, a5 = mk(), mk(), mk(), mk(), mk()
K1, K2 = mkK(), mkK()
res = {
  'unannotated': beartype(unann) is unann,
  'no_type_check': beartype(nc) is nc,
  'O0': beartype(conf=O0)(a1) is a1,
  'O0-class': (lambda d: beartype(conf=O0)(K1) is K1 and same_class(K1, d))(dict(K1.__dict__)),
  'annotated-is-wrapped': (beartype(a2) is not a2) == (not sys.flags.optimize),
  'optimize-identity': (not sys.flags.optimize) or (beartype(a3) is a3 and (lambda d: beartype(K2) is K2 and same_class(K2, d))(dict(K2.__dict__))),
  'idempotent': (lambda w: beartype(w) is w)(beartype(a4)),
}
# a decoration that was a no-op must not disable a later real decoration of the same function
beartype(conf=O0)(a5)
w = beartype(a5)
res['default-after-O0'] = bool(sys.flags.optimize) or (w is not a5 and rejects(w))
print(sorted(k for k, v in res.items() if not v))
'''


def noop_cases(ctx):
    import os
    repo = os.environ.get('BEARMC_REPO', '/repo')
    n = 0
    for flags in ([], ['-O'], ['-OO']):
        r = subprocess.run(['/venv/bin/python'] + flags + ['-c', NOOP_SCRIPT], capture_output=True, text=True,
                           env={'PYTHONPATH': repo, 'PATH': os.environ.get('PATH', ''), 'PYTHONDONTWRITEBYTECODE': '1', 'HOME': os.environ.get('HOME', '/root')})
        n += 1
        out = r.stdout.strip().splitlines()[-1] if r.stdout.strip() else r.stderr[-200:]
        if out != '[]':
            ctx.violation(f'noop:{" ".join(flags) or "default"}:{out[:80]}', f'no-op / identity cases failing under python {" ".join(flags)}: {out}', {'script': NOOP_SCRIPT})
    return n


def _work(shard):
    part = {'cover': {'evaluations': 0, 'states': 0, 'calls': 0}, 'violations': []}
    for prog in _STATE['progs'][shard::NSHARDS]:
        check_program(prog, part)
    return part


def run(ctx):
    progs = programs(ctx.tier)
    _STATE['progs'] = progs
    tot = {}
    for part in ctx.pmap(_work, range(NSHARDS)):
        for k, v in part['cover'].items():
            tot[k] = tot.get(k, 0) + v
        for v in part['violations']:
            ctx.violation(*v)
    n_noop = noop_cases(ctx)
    ctx.cover(
        evaluations=tot['evaluations'] + n_noop, states=tot['states'], transitions=tot['calls'], traces_validated_against_impl=tot['evaluations'],
        distinct_nontrivial=tot['states'], programs=len(progs), calls_compared=tot['calls'], interpreter_runs=n_noop, exhaustive=True,
        samples=[PRELUDE.splitlines()[5] + ' ...', class_source(*progs[len(progs) // 2][:1], 'MEMBER', *progs[len(progs) // 2][1:5])],
        rule=(f'E1: {len(progs)} class programs = every combination of <= {2 if ctx.quick else 3} members out of {len(MEMBERS)} kinds (plain / class / static '
              'method, property with every accessor subset, float member, functools.wraps closure, unannotated, @no_type_check, string hints naming a function-local class or '
              'the class itself) x base class x @dataclass x module-level / inside a function, plus classes nested 1-3 deep, plus the configuration axis (default, tower, warn-on-decoration-error with an undecoratable member before / after every other member); three copies from '
              'one source (plain, class-decorated, member-decorated); outcomes of good and bad calls through instance and class, descriptor kinds, '
              '__name__/__qualname__/__doc__/signature/function attributes, __wrapped__, inherited members, idempotence; identity cases under '
              'python, python -O and python -OO.'),
    )
    ctx.assume('equivalence is judged on outcome classes of calls, not on message text')


def replay(ctx, case):
    print(case.get('source_member_variant') or case)
