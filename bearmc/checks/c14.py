"""C14 -- answers do not depend on what was asked before (memoisation is invisible).

E2 fork-snapshot DFS: every history (sequence of public-API operations) of length <= 2 (quick) / 3 (thorough) over an
alphabet built to collide -- equal-but-distinct hints, hash-equal literal members, same-named classes and TypeVars,
unhashable hints, forward references resolved differently in two scopes, failing-then-succeeding references,
same-named @beartype class redefinitions, id() reuse after garbage collection, cache clears.  Oracle: the observation of
the last operation equals its observation in a fresh process (depth 1).
"""
from __future__ import annotations

import gc
import typing
import warnings

from .. import drive, snap
from ..model import universe as U

PROPERTY = 'C14'
_STATE = {}


def _pos(x):
    return isinstance(x, int) and x > 0


def _truthy(x):
    return bool(x)


def hint_table():
    from beartype.vale import Is, IsEqual
    T = typing
    return {
        'U_is': T.Union[int, str], 'U_si': T.Union[str, int], 'B_is': int | str, 'List_i': T.List[int], 'list_i': list[int],
        'L1': T.Literal[1], 'LT': T.Literal[True], 'L1T': T.Literal[1, True], 'LT1': T.Literal[True, 1],
        'Eq1': T.Annotated[object, IsEqual[1]], 'EqT': T.Annotated[object, IsEqual[True]], 'Eq1f': T.Annotated[object, IsEqual[1.0]],
        'DA': U.DupA, 'DB': U.DupB, 'lDA': list[U.DupA], 'lDB': list[U.DupB], 'dDA': dict[str, U.DupA], 'dDB': dict[str, U.DupB],
        'uDA': T.Union[U.DupA, None], 'uDB': T.Union[U.DupB, None],
        'TSi': U.TSi, 'TSs': U.TSs, 'lTSi': list[U.TSi], 'lTSs': list[U.TSs],
        'unh_i': T.Annotated[int, Is[_pos], []], 'unh_s': T.Annotated[str, Is[_truthy], []],
        'tII': tuple[int, int], 'tIS': tuple[int, str],
        # one user generic under different subscriptions (the subscription survives only as type-variable bindings)
        'GLi': U.GL[int], 'GLs': U.GL[str], 'GL_': U.GL, 'Gi': U.G[int], 'Gs': U.G[str],
    }


OBJ = {
    '1': lambda: 1, 'True': lambda: True, '1.0': lambda: 1.0, "'a'": lambda: 'a', '[1]': lambda: [1], "['a']": lambda: ['a'],
    '[DupA()]': lambda: [U.DupA()], '[DupB()]': lambda: [U.DupB()], 'DupA()': lambda: U.DupA(), 'DupB()': lambda: U.DupB(),
    "{'k': DupA()}": lambda: {'k': U.DupA()}, "{'k': DupB()}": lambda: {'k': U.DupB()}, '0': lambda: 0, "(1, 'a')": lambda: (1, 'a'),
    '(1, 1)': lambda: (1, 1), 'None': lambda: None, "GL(['a'])": lambda: U.GL(['a']), 'GL([1])': lambda: U.GL([1]), 'G()': lambda: U.G(),
}


def _bear(h, o):
    """Observation of is_bearable / die_if_unbearable for both draws 0 and 1."""
    from beartype.door import is_bearable, die_if_unbearable
    from beartype.roar import BeartypeDoorHintViolation
    H = _STATE['H']
    out = []
    for r in (0, 1):
        drive.DRAW[0] = r
        x = OBJ[o]()
        try:
            out.append(is_bearable(x, H[h]))
        except Exception as e:
            out.append('E:' + type(e).__name__)
        try:
            die_if_unbearable(x, H[h])
            out.append('ok')
        except BeartypeDoorHintViolation as e:
            c = e.culprits
            out.append(('viol', len(c), type(c[0]).__name__ if not isinstance(c[0], str) else 'repr'))
        except Exception as e:
            out.append('E:' + type(e).__name__)
    return tuple(out)


def _thbear(h, o):
    """The object-oriented route: TypeHint(h).is_bearable / .hint (a wrapper cached under a key coarser than the hint answers
    for another hint)."""
    from beartype.door import TypeHint
    H = _STATE['H']
    try:
        th = TypeHint(H[h])
        return (th.is_bearable(OBJ[o]()), th.hint == H[h], TypeHint(H[h]) is th if _hashable(H[h]) else None)
    except Exception as e:
        return 'E:' + type(e).__name__


def _door_prefixed(which, h, o):
    """One of the two door functions with an explicit exception_prefix (their memo keys then coincide: they must not share a table)."""
    from beartype.door import is_bearable, die_if_unbearable
    from beartype.roar import BeartypeDoorHintViolation
    H = _STATE['H']
    drive.DRAW[0] = 0
    try:
        if which == 'is':
            return ('is', is_bearable(OBJ[o](), H[h], exception_prefix='C14: '))
        r = die_if_unbearable(OBJ[o](), H[h], exception_prefix='C14: ')
        return ('die', 'returned', repr(r))
    except BeartypeDoorHintViolation as e:
        return ('die', 'viol', str(e).startswith('C14: '))
    except Exception as e:
        return (which, 'E:' + type(e).__name__)


def _decor(h, o):
    from beartype import beartype
    from beartype.roar import BeartypeCallHintViolation
    H = _STATE['H']

    def f(a):
        return a
    f.__annotations__ = {'a': H[h], 'return': H[h]}
    try:
        g = beartype(f)
    except Exception as e:
        return ('decorate-E', type(e).__name__)
    x = OBJ[o]()
    try:
        return ('ret-same', g(x) is x)
    except BeartypeCallHintViolation as e:
        return ('viol', type(e).__name__)
    except Exception as e:
        return ('E', type(e).__name__)


def _sub(a, b):
    from beartype.door import is_subhint
    H = _STATE['H']
    try:
        return is_subhint(H[a], H[b])
    except Exception as e:
        return 'E:' + type(e).__name__


def _theq(a, b):
    from beartype.door import TypeHint
    H = _STATE['H']
    try:
        ta, tb = TypeHint(H[a]), TypeHint(H[b])
        return (ta == tb, ta.hint == H[a], tb.hint == H[b], TypeHint(H[a]) is ta if _hashable(H[a]) else None)
    except Exception as e:
        return 'E:' + type(e).__name__


def _hashable(h):
    try:
        hash(h)
        return True
    except TypeError:
        return False


def _module(name):
    """A real (registered) module namespace, so that forward references can be resolved against it."""
    import sys
    import types
    from beartype import beartype
    m = sys.modules.get(name)
    if m is None:
        m = sys.modules[name] = types.ModuleType(name)
    m.__dict__['beartype'] = beartype
    return m.__dict__


# --- scenario operations -----------------------------------------------------------------------------------------
def _fwd(fail_first):
    """decorate f(x: 'Later'); optionally call while unresolved; define Later; call with good and bad arguments."""
    from beartype import beartype
    from beartype.roar import BeartypeCallHintViolation
    ns = _module('c14_fwd_mod')
    exec("@beartype\ndef f(x: 'Later') -> 'Later':\n    return x\n", ns)
    out = []
    if fail_first:
        try:
            ns['f'](1)
            out.append('unresolved-call-returned')
        except Exception as e:
            out.append('unresolved:' + ('fwdref' if 'ForwardRef' in type(e).__name__ else type(e).__name__))
    exec('class Later:\n    pass\n', ns)
    for arg in ('Later()', '1'):
        try:
            ns['f'](eval(arg, ns))
            out.append('ok')
        except BeartypeCallHintViolation:
            out.append('viol')
        except Exception as e:
            out.append('E:' + type(e).__name__)
    return tuple(out[1:] if fail_first else out), (out[0] if fail_first else None)


def _fwd_nonhint():
    """decorate f(x: 'Later'); bind Later to a non-hint object and call twice (both fail); rebind Later to a class; call."""
    from beartype.roar import BeartypeCallHintViolation
    ns = _module('c14_fwdnh_mod')
    exec("@beartype\ndef f(x: 'Later') -> 'Later':\n    return x\n", ns)
    fails = []
    ns['Later'] = 3
    for _ in range(2):
        try:
            ns['f'](1)
            fails.append('returned')
        except Exception as e:
            fails.append(type(e).__name__)
    exec('class Later:\n    pass\n', ns)
    out = []
    for arg in ('Later()', '1'):
        try:
            ns['f'](eval(arg, ns))
            out.append('ok')
        except BeartypeCallHintViolation:
            out.append('viol')
        except Exception as e:
            out.append('E:' + type(e).__name__)
    return tuple(out), tuple(fails)


def _scope(shape, which):
    """The same source text  f(x: <shape over 'Key'>)  decorated in a closure scope where 'Key' names a different class."""
    from beartype import beartype
    from beartype.roar import BeartypeCallHintViolation
    src = (
        'def factory():\n'
        f'    class Key({"int" if which == "A" else "str"}):\n        pass\n'
        '    @beartype\n'
        f'    def f(x: {shape}):\n        return x\n'
        '    return f, Key\n')
    ns = _module('c14_scope_mod')
    exec(src, ns)
    out = []
    try:
        f, Key = ns['factory']()
    except Exception as e:
        return ('decorate-E', type(e).__name__)
    good = Key(1) if which == 'A' else Key('s')
    other = 's' if which == 'A' else 1
    mk = {
        "'Key'": lambda v: v, "list['Key']": lambda v: [v], "dict['Key', int]": lambda v: {v: 1}, "tuple['Key', int]": lambda v: (v, 1),
        "tuple[list['Key'], list[int]]": lambda v: ([v], [1]),
    }[shape]
    for v in (good, other):
        try:
            f(mk(v))
            out.append('ok')
        except BeartypeCallHintViolation:
            out.append('viol')
        except Exception as e:
            out.append('E:' + type(e).__name__)
    return tuple(out)


def _redefine(n):
    """(Re)define a same-named @beartype class n times; after each definition ask questions that involve it."""
    from beartype import beartype
    from beartype.door import is_bearable
    from beartype.roar import BeartypeCallHintViolation
    out = []
    for _ in range(n):
        ns = _module('c14_redef_mod')
        exec("@beartype\nclass Node:\n    def link(self, other: 'Node') -> 'Node':\n        return other\n"
             "    def many(self, others: list['Node']) -> int:\n        return len(others)\n", ns)
        Node = ns['Node']
        a, b = Node(), Node()
        step = []
        for call in (lambda: a.link(b), lambda: a.many([b]), lambda: a.link(1), lambda: a.many([1])):
            try:
                call()
                step.append('ok')
            except BeartypeCallHintViolation:
                step.append('viol')
            except Exception as e:
                step.append('E:' + type(e).__name__)
        step.append(is_bearable([Node()], list[Node]))
        step.append(is_bearable([1], list[Node]))
        out.append(tuple(step))
    return out[-1]          # what the *last* definition observed must not depend on how many came before


def _gc_reuse():
    """Create and drop TypeHint wrappers over unhashable hints (not singleton-cached), collect, and ask again: an id()
    keyed memo must not hand the dead wrapper's answer to a new object that happens to reuse its address."""
    from beartype.door import TypeHint
    from beartype.vale import Is
    reused = False
    out = []
    seen = set()
    for k in range(6):
        cls = int if k % 2 == 0 else str
        h = typing.Annotated[cls, Is[_truthy], []]
        th = TypeHint(h)
        other = TypeHint(typing.Union[int, None])
        out.append((cls.__name__, th.is_subhint(other), TypeHint(int).is_subhint(th)))
        i = id(th)
        reused |= i in seen
        seen.add(i)
        del th, h
        gc.collect()
    _STATE['gc_reused'] = reused
    return tuple(out)


def _clear():
    from beartype._util.cache.utilcacheclear import clear_caches
    clear_caches()
    return 'cleared'


def build_ops(tier='thorough'):
    ops = []
    add = lambda name, fn: ops.append((name, fn))
    pairs = [('U_is', '1'), ('U_is', '1.0'), ('U_si', "'a'"), ('U_si', 'None'), ('B_is', '1'), ('List_i', '[1]'), ('List_i', "['a']"),
             ('list_i', "['a']"), ('L1', '1'), ('L1', 'True'), ('LT', '1'), ('LT', 'True'), ('L1T', '1'), ('L1T', 'True'), ('LT1', '1'),
             ('LT1', 'True'), ('Eq1', '1.0'), ('Eq1', '0'), ('EqT', '1'), ('Eq1f', 'True'), ('lDA', '[DupA()]'), ('lDA', '[DupB()]'),
             ('lDB', '[DupB()]'), ('lDB', '[DupA()]'), ('dDA', "{'k': DupA()}"), ('dDB', "{'k': DupB()}"), ('dDB', "{'k': DupA()}"),
             ('DA', 'DupA()'), ('DB', 'DupB()'), ('DB', 'DupA()'), ('uDA', 'DupA()'), ('uDB', 'DupB()'), ('uDB', 'DupA()'),
             ('TSi', '1'), ('TSs', "'a'"), ('TSs', '1'), ('lTSi', '[1]'), ('lTSs', "['a']"), ('lTSs', '[1]'),
             ('unh_i', '1'), ('unh_i', '0'), ('unh_s', "'a'"), ('unh_s', '1'), ('tII', '(1, 1)'), ('tII', "(1, 'a')"), ('tIS', "(1, 'a')"),
             ('GLi', 'GL([1])'), ('GLi', "GL(['a'])"), ('GLs', "GL(['a'])"), ('GLs', 'GL([1])'), ('GL_', "GL(['a'])"), ('GL_', '[1]'),
             ('Gi', 'G()'), ('Gs', 'G()'), ('Gs', '1')]
    for h, o in pairs:
        add(f'bear({h},{o})', lambda h=h, o=o: _bear(h, o))
    for h, o in [('lDA', '[DupA()]'), ('lDB', '[DupB()]'), ('lDB', '[DupA()]'), ('LT1', '1'), ('L1T', 'True'), ('TSs', "'a'"), ('TSi', "'a'"),
                 ('unh_i', '0'), ('U_si', '1.0'), ('uDB', 'DupB()'), ('GLs', "GL(['a'])"), ('GLi', "GL(['a'])")]:
        add(f'decor({h},{o})', lambda h=h, o=o: _decor(h, o))
    for a, b in [('L1', 'LT'), ('LT', 'L1'), ('TSi', 'TSs'), ('TSs', 'TSi'), ('lTSi', 'lTSs'), ('DA', 'DB'), ('lDA', 'lDB'), ('U_is', 'U_si'),
                 ('List_i', 'list_i'), ('unh_i', 'U_is'), ('L1', 'U_is'), ('tII', 'tIS')]:
        add(f'sub({a},{b})', lambda a=a, b=b: _sub(a, b))
    for a, b in [('TSi', 'TSs'), ('DA', 'DB'), ('lDA', 'lDB'), ('L1T', 'LT1'), ('U_is', 'U_si'), ('unh_i', 'unh_s'), ('L1', 'LT')]:
        add(f'theq({a},{b})', lambda a=a, b=b: _theq(a, b))
    for h, o in [('TSi', '1'), ('TSs', "'a'"), ('DA', 'DupA()'), ('DB', 'DupB()'), ('lDB', '[DupB()]'), ('lDA', '[DupA()]'), ('U_si', "'a'")]:
        add(f'thbear({h},{o})', lambda h=h, o=o: _thbear(h, o))
    for h, o in [('U_is', '1.0'), ('U_is', '1'), ('list_i', "['a']")]:
        add(f'is_p({h},{o})', lambda h=h, o=o: _door_prefixed('is', h, o))
        add(f'die_p({h},{o})', lambda h=h, o=o: _door_prefixed('die', h, o))
    add('fwd(fail-then-define)', lambda: _fwd(True)[0])
    add('fwd(define)', lambda: _fwd(False)[0])
    add('fwd(nonhint-then-define)', _fwd_nonhint)
    for shape in ("'Key'", "list['Key']", "dict['Key', int]", "tuple['Key', int]", "tuple[list['Key'], list[int]]"):
        for which in 'AB':
            add(f'scope({shape},{which})', lambda s=shape, w=which: _scope(s, w))
    add('redefine(1)', lambda: _redefine(1))
    add('redefine(2)', lambda: _redefine(2))
    add('gc-reuse', _gc_reuse)
    add('clear_caches', _clear)
    if tier == 'quick':
        # 45 operations: process forks cost ~12 ms and do not parallelise in this sandbox (about 80/s machine-wide)
        keep = {'bear(U_is,1.0)', "bear(U_si,'a')", 'bear(B_is,1)', "bear(List_i,['a'])", "bear(list_i,['a'])", 'bear(L1,True)', 'bear(LT,1)',
                'bear(L1T,1)', 'bear(LT1,1)', 'bear(LT1,True)', 'bear(Eq1,1.0)', 'bear(EqT,1)', 'bear(Eq1f,True)', 'bear(lDA,[DupA()])',
                'bear(lDB,[DupB()])', 'bear(lDB,[DupA()])', "bear(dDB,{'k': DupB()})", 'bear(DB,DupB())', 'bear(uDB,DupB())', "bear(TSs,'a')",
                'bear(TSs,1)', 'bear(TSi,1)', "bear(lTSs,['a'])", 'bear(unh_i,0)', "bear(unh_s,'a')", "bear(tII,(1, 'a'))",
                'decor(lDB,[DupB()])', 'decor(LT1,1)', "decor(TSs,'a')", 'sub(L1,LT)', 'sub(TSi,TSs)', 'sub(TSs,TSi)', 'sub(lDA,lDB)', 'sub(tII,tIS)',
                'theq(TSi,TSs)', 'theq(DA,DB)', 'theq(L1T,LT1)', 'fwd(fail-then-define)', 'fwd(define)', 'fwd(nonhint-then-define)',
                'bear(GLi,GL([1]))', "bear(GLs,GL(['a']))", 'bear(GLs,GL([1]))', "bear(GL_,GL(['a']))", 'bear(Gs,G())', "scope(dict['Key', int],A)",
                "scope(dict['Key', int],B)", "scope(tuple[list['Key'], list[int]],A)", "scope(tuple[list['Key'], list[int]],B)",
                "scope('Key',A)", "scope('Key',B)", "thbear(TSi,1)", "thbear(TSs,'a')", 'thbear(DA,DupA())', 'thbear(DB,DupB())',
                'is_p(U_is,1.0)', 'die_p(U_is,1.0)', 'is_p(U_is,1)', 'die_p(U_is,1)', 'redefine(1)', 'redefine(2)', 'gc-reuse', 'clear_caches'}
        keep -= {'bear(B_is,1)', 'bear(LT1,True)', 'bear(Eq1f,True)', "bear(dDB,{'k': DupB()})", 'bear(uDB,DupB())', "bear(unh_s,'a')", 'sub(TSs,TSi)',
                 'theq(DA,DB)', 'bear(Gs,G())', "bear(lTSs,['a'])", 'bear(EqT,1)', 'decor(LT1,1)', "bear(tII,(1, 'a'))", 'sub(tII,tIS)',
                 'bear(TSi,1)'}       # near-duplicates of kept operations (thorough keeps them)
        missing = keep - {n for n, _ in ops}
        assert not missing, missing
        ops = [(n, f) for n, f in ops if n in keep]
    return ops


_DUP = {'A': ('lDA', 'dDA', 'uDA', 'DA'), 'B': ('lDB', 'dDB', 'uDB', 'DB')}


def _dup_side(name):
    for side, hs in _DUP.items():
        if any(f'({h},' in name or f',{h})' in name for h in hs):
            return side
    return None


def classify(hs):
    """Known families of history dependence (signatures of known findings); None = report the exact history."""
    last, before = hs[-1], hs[:-1]
    if last == 'gc-reuse':
        return 'history-dependent:id-reuse-after-gc:TypeHint-over-unhashable-hint'
    # (the two families of forward-reference operations use two different modules: a reference is only re-resolved wrongly
    # when the *same* module-level name was resolved earlier and has been rebound since)
    fam = lambda n: 'nonhint' in n
    if last.startswith('fwd(') and any(b.startswith('fwd(') and fam(b) == fam(last) for b in before):
        return 'history-dependent:forward-reference-to-a-redefined-same-named-class'
    side = _dup_side(last)
    if side and last.startswith(('bear(', 'decor(')) and any(_dup_side(b) not in (None, side) and b.startswith(('bear(', 'decor(')) for b in before):
        # container hints over two distinct classes with the same repr() (list[DupA] / list[DupB])
        if any(f'({h},' in last for h in ('lDA', 'lDB', 'dDA', 'dDB', 'uDA', 'uDB')):
            return 'history-dependent:same-repr-classes-in-subscripted-hints'
    return None


def apply(op, hist, ctx):
    with warnings.catch_warnings():
        warnings.simplefilter('ignore')
        name, fn = _STATE['ops'][op]
        try:
            obs = fn()
        except Exception as e:
            obs = ('HARNESS-LEVEL-E', type(e).__name__, str(e)[:100])
    return obs, None


def _explore(first):
    o1, _ = apply(first, (), None)
    out = [((first,), o1)]
    depth = _STATE['depth']
    if depth > 1:
        allowed = None
        if depth >= 3:
            core = _STATE['core']
            # every ordered pair; a third operation (any) after every pair over the core of state-changing operations
            allowed = lambda prefix: range(len(_STATE['ops'])) if len(prefix) == 1 or all(p in core for p in prefix) else ()
            if first not in core:
                return out + snap.dfs(apply, len(_STATE['ops']), 1, (first,), None, None)
        out += snap.dfs(apply, len(_STATE['ops']), depth - 1, (first,), allowed, None)
    return out


def run(ctx):
    assert snap.selftest()
    drive.install_draw()
    _STATE['H'] = hint_table()
    ops = build_ops(ctx.tier)
    depth = 2 if ctx.quick else 3
    names = [n for n, _ in ops]
    core = [i for i, n in enumerate(names) if n.startswith(('redefine', 'clear', 'gc', 'fwd')) or n in (
        "scope(dict['Key', int],A)", "scope(dict['Key', int],B)",
        'bear(lDA,[DupA()])', 'bear(L1,1)', 'bear(LT1,1)', 'bear(TSi,1)', 'bear(U_is,1)', 'sub(TSi,TSs)', 'theq(TSi,TSs)', 'decor(lDA,[DupA()])')]
    _STATE.update(ops=ops, depth=depth, core=core)
    nodes = []
    for part in ctx.pmap(_explore, range(len(ops)), fresh=True):
        nodes += part
    fresh = {h[0]: o for h, o in nodes if len(h) == 1}
    for i, (n, _) in enumerate(ops):
        if isinstance(fresh.get(i), tuple) and fresh[i] and fresh[i][0] == 'HARNESS-LEVEL-E':
            raise AssertionError(f'operation {n} fails in a fresh process: {fresh[i]}')
    # the failing-then-defined forward reference must end up exactly like the never-failed one
    i1, i2 = names.index('fwd(fail-then-define)'), names.index('fwd(define)')
    if fresh[i1] != fresh[i2]:
        ctx.violation('fwdref-remembered-as-failing', f'after an unresolved call, defining the class gives {fresh[i1]}; without the failed call {fresh[i2]}',
                      {'history': ['fwd(fail-then-define)']})
    i3 = names.index('fwd(nonhint-then-define)')
    if fresh[i3][0] != fresh[i2] or len(set(fresh[i3][1])) != 1:
        ctx.violation('fwdref-to-non-hint-remembered', f'a reference first bound to a non-hint object: the two failing calls raised {fresh[i3][1]} (must be identical); '
                      f'after rebinding it to a class the calls gave {fresh[i3][0]}, a never-failed reference gives {fresh[i2]}', {'history': ['fwd(nonhint-then-define)']})
    ndiff = 0
    outcomes = set()
    for hist, obs in nodes:
        outcomes.add(str(obs)[:60])
        if len(hist) == 1:
            continue
        op = hist[-1]
        if obs != fresh[op]:
            ndiff += 1
            hs = [names[i] for i in hist]
            cls = classify(hs)
            ctx.violation(cls or f'history-dependent:{names[op]}:after:{";".join(hs[:-1])}',
                          f'{names[op]} observed {str(obs)[:200]} after [{", ".join(hs[:-1])}] but {str(fresh[op])[:200]} in a fresh process',
                          {'history': hs})
    ctx.cover(
        evaluations=len(nodes), states=len(nodes), transitions=len(nodes), traces_validated_against_impl=len(nodes),
        distinct_nontrivial=len([1 for h, _ in nodes if len(h) > 1]), operations=len(ops), depth=depth,
        distinct_observations=len(outcomes), exhaustive=True,
        samples=[[names[i] for i in nodes[len(nodes) // 3][0]], [names[i] for i in nodes[-1][0]], {'fresh_observation': str(fresh[0])}],
        rule=(f'E2 fork-snapshot DFS: every history of length <= {depth} over {len(ops)} public-API operations chosen to collide in '
              'beartype\'s memo tables (equal-but-distinct hints, Literal[1]/Literal[True] and both member orders, IsEqual[1]/[True]/[1.0], '
              'two classes and two TypeVars with identical repr, unhashable hints, forward references that fail first, the same annotation '
              'text resolved in two scopes, same-named @beartype class redefinition once and twice, id() reuse after gc, clear_caches); '
              + ('every ordered pair, and every third operation after every pair over a core of state-changing operations; ' if depth == 3 else '')
              + 'each node is a real process state reached by forking; the last operation\'s observation (verdicts for two draws, exception '
              'classes, culprit shape, identities) must equal its observation in a fresh process.  distinct_nontrivial = nodes with a '
              'non-empty history.'),
    )
    ctx.assume('observations are address-free; equal hints are interchangeable (TypeHint(h).hint == h, not "is")')


def replay(ctx, case):
    print('history:', case.get('history'))
