"""C11 -- only beartype's own exceptions for bad hints; user exceptions pass through.

Part A (E1 over malformed hints): every typing / builtin factory of the C01 alphabet subscripted with junk (depth <= 2),
wrong arities, bare junk, unresolvable strings -- handed to @beartype (parameter and return), is_bearable,
die_if_unbearable, TypeHint and is_subhint (both sides) under several configurations.  Outcome must be: works, or a
public BeartypeException subclass (Decor* at decoration time, Call* at call time; door functions either door or
decor-hint exceptions); warnings must be BeartypeWarning subclasses.
Part B: exceptions raised by user code reached during a call (wrapped body, Is[...] callable, __instancecheck__,
__subclasscheck__, container __len__ / __getitem__ / __iter__ / __next__, Literal comparand __eq__) propagate as the same object.
"""
from __future__ import annotations

import collections.abc as cabc
import typing
import warnings

PROPERTY = 'C11'
NSHARDS = 48
_STATE = {}


class Marked(Exception):
    """Raised by the harness's own hostile junk objects: escaping as-is is correct pass-through, not a leak."""


class Hostile:
    def __init__(self, what):
        self.what = what

    def __hash__(self):
        if 'hash' in self.what:
            raise Marked('hash')
        return 1

    def __eq__(self, o):
        if 'eq' in self.what:
            raise Marked('eq')
        return self is o

    def __repr__(self):
        if 'repr' in self.what:
            raise Marked('repr')
        return f'Hostile({self.what})'


class MetaHostile(type):
    def __instancecheck__(cls, o):
        raise Marked('instancecheck')


class HostileClass(metaclass=MetaHostile):
    pass


def junk():
    import sys
    return {
        '0': 0, '1.5': 1.5, "'NoSuchName'": 'NoSuchName', "'syntax error('": 'syntax error(', '[]': [], '{}': {}, 'set()': set(), '[int]': [int],
        'lambda': (lambda: 0), 'module': sys, '...': ..., "(int, 'X')": (int, 'X'), 'unhashable-instance': type('U', (), {'__hash__': None})(),
        'Hostile(hash)': Hostile('hash'), 'Hostile(eq)': Hostile('eq'), 'Hostile(repr)': Hostile('repr'), 'HostileClass': HostileClass,
        'None': None, 'b"x"': b'x', '(int, [])': (int, []), "'sys.modules'": 'sys.modules', "'int'": 'int', "''": '', 'True': True,
        'NotImplemented': NotImplemented, 'object()': object(),
        # string hints that are valid expressions over resolvable names but whose evaluation fails in some other way
        "'{}[1]'": '{}[1]', "'[][0]'": '[][0]', "'1/0'": '1/0', "'int(chr(65))'": 'int(chr(65))', "'next(iter(()))'": 'next(iter(()))',
        "'len()'": 'len()', "'None.attr'": 'None.attr', "'chr(-1)'": 'chr(-1)', "'(lambda f: f(f))(lambda f: f(f))'": '(lambda f: f(f))(lambda f: f(f))',
        "'int[str]'": 'int[str]', "'list[int'": 'list[int', "'[].pop()'": '[].pop()',
        # type variables whose constraints / bound are (unresolvable or resolvable) forward references
        "TypeVar(int,'Fwd')": typing.TypeVar('TFc', int, 'C11Fwd'), "TypeVar(bound='Fwd')": typing.TypeVar('TFb', bound='C11Fwd'),
        "TypeVar(int,'int')": typing.TypeVar('TFi', int, 'int'), "TypeVar(bound='int|None')": typing.TypeVar('TFn', bound='int | None'),
        "TypeVar('str','Fwd')": typing.TypeVar('TFs', 'str', 'C11Fwd'),
    }


def factories():
    T = typing
    return {
        'List': T.List, 'list': list, 'Dict': T.Dict, 'dict': dict, 'Tuple': T.Tuple, 'tuple': tuple, 'Set': T.Set, 'frozenset': frozenset,
        'Sequence': cabc.Sequence, 'Mapping': cabc.Mapping, 'Iterable': cabc.Iterable, 'Collection': cabc.Collection, 'Deque': T.Deque,
        'Union': T.Union, 'Optional': T.Optional, 'Type': T.Type, 'type': type, 'Literal': T.Literal, 'Annotated': T.Annotated,
        'Callable': T.Callable, 'Counter': T.Counter, 'ItemsView': cabc.ItemsView, 'DefaultDict': T.DefaultDict, 'ClassVar': T.ClassVar,
        'Final': T.Final, 'Generic': T.Generic, 'Protocol': T.Protocol,
    }


def malformed_hints(tier):
    """[(label, hint object)] -- whatever typing itself refuses to build is skipped and counted."""
    J, F = junk(), factories()
    out, refused = [], 0
    for jn, j in J.items():
        out.append((f'bare {jn}', j))
    for fn, f in F.items():
        for jn, j in J.items():
            for label, mk in ((f'{fn}[{jn}]', lambda: f[j]), (f'{fn}[int, {jn}]', lambda: f[int, j]), (f'{fn}[{jn}, int]', lambda: f[j, int])):
                try:
                    out.append((label, mk()))
                except BaseException:
                    refused += 1
        # wrong arities
        for label, mk in ((f'{fn}[int, int, int]', lambda: f[int, int, int]), (f'{fn}[()]', lambda: f[()]), (f'{fn}[int, ..., int]', lambda: f[int, ..., int]),
                          (f'{fn}[...]', lambda: f[...])):
            try:
                out.append((label, mk()))
            except BaseException:
                refused += 1
    # depth 2: junk nested inside a well-formed container hint, and inside Annotated / Union
    for jn, j in J.items():
        for label, mk in ((f'list[list[{jn}]]', lambda: list[list[j]]), (f'dict[str, list[{jn}]]', lambda: dict[str, list[j]]),
                          (f'Union[int, list[{jn}]]', lambda: typing.Union[int, list[j]]), (f'Annotated[int, {jn}]', lambda: typing.Annotated[int, j]),
                          (f'Annotated[list[{jn}], 1]', lambda: typing.Annotated[list[j], 1]), (f'Optional[tuple[{jn}, ...]]', lambda: typing.Optional[tuple[j, ...]]),
                          (f'Literal[{jn}]', lambda: typing.Literal[j]), (f'type[{jn}]', lambda: type[j]), (f'tuple[int, {jn}]', lambda: tuple[int, j])):
            try:
                out.append((label, mk()))
            except BaseException:
                refused += 1
    # de-duplicate by label
    seen, res = set(), []
    for label, h in out:
        if label not in seen:
            seen.add(label)
            res.append((label, h))
    return res, refused


def classify(exc, phase):
    """'ok' | reason for a leak"""
    from beartype.roar import BeartypeException, BeartypeDecorException, BeartypeCallException, BeartypeDoorException, BeartypeCallHintViolation
    if isinstance(exc, BeartypeCallHintViolation) or type(exc).__name__ == 'ExcX':
        return 'ok'                 # the hint was understood and the argument rejected: the API works
    if isinstance(exc, Marked) or isinstance(getattr(exc, '__cause__', None), Marked) and isinstance(exc, Marked):
        return 'ok'
    if not isinstance(exc, BeartypeException):
        return f'foreign exception {type(exc).__name__}'
    if type(exc).__name__.startswith('_'):
        return f'internal exception {type(exc).__name__}'
    if phase == 'decorate' and not isinstance(exc, BeartypeDecorException):
        return f'decoration-time problem raised as {type(exc).__name__} (not a BeartypeDecorException)'
    if phase == 'call' and not isinstance(exc, (BeartypeCallException,)):
        return f'call-time problem raised as {type(exc).__name__} (not a BeartypeCallException)'
    return 'ok'


def probe_hint(label, h, confs, part):
    from beartype import beartype
    from beartype.door import is_bearable, die_if_unbearable, TypeHint, is_subhint
    from beartype.roar import BeartypeWarning
    viol, cov = part['violations'], part['cover']

    def report(entry, phase, exc):
        why = classify(exc, phase)
        cov['outcomes'].add((entry, 'raised ' + type(exc).__name__ if why == 'ok' else 'LEAK'))
        if why != 'ok':
            fam = type(exc).__name__
            if isinstance(exc, TypeError) and 'unhashable' in str(exc):
                # unhashable junk as an *argument of a subscripted hint* (list[[]], dict[str, {}], Literal[[]], (int, [])) vs
                # an unhashable hint whose root is Annotated[<hashable>, <unhashable metadata>]
                import re as _re
                fam = 'unhashable-annotated-root:' + label if _re.match(r'^Annotated\[int, ', label) or label.startswith('bare ') and '(int, [])' not in label \
                    else 'unhashable-argument-of-subscripted-hint'
                viol.append((f'leak:{fam}:{entry}', f'{entry} given the hint {label}: {why}: {str(exc)[:160]}', {'hint': label, 'entry': entry}))
                return
            import re as _re
            if phase == 'decorate' and fam == 'BeartypeCallHintPep484ForwardRefStrException' and _re.match(r"^[Tt]ype\[TypeVar\(", label):
                viol.append((f'leak:decoration-resolves-forward-reference-eagerly:type[TypeVar-over-unresolvable-reference]:{entry}',
                             f'{entry} given the hint {label}: {why}: {str(exc)[:160]}', {'hint': label, 'entry': entry}))
                return
            viol.append((f'leak:{entry}:{fam}:{_family(label)}', f'{entry} given the hint {label}: {why}: {str(exc)[:160]}', {'hint': label, 'entry': entry}))

    for cname, conf in confs.items():
        with warnings.catch_warnings(record=True) as rec:
            warnings.simplefilter('always')
            # @beartype parameter / return
            for pos in ('param', 'return'):
                def f(a):
                    return a
                f.__annotations__ = {'a': h} if pos == 'param' else {'return': h}
                cov['evaluations'] += 1
                try:
                    g = beartype(conf=conf)(f)
                except BaseException as e:
                    report(f'@beartype({pos})', 'decorate', e)
                    continue
                for arg in (1, 's', None, [1]):
                    cov['evaluations'] += 1
                    try:
                        g(arg)
                        cov['outcomes'].add((f'@beartype({pos})', 'works'))
                    except BaseException as e:
                        report(f'call({pos})', 'call', e)
            for name, fn in (('is_bearable', lambda: is_bearable(1, h, conf=conf)), ('die_if_unbearable', lambda: die_if_unbearable(1, h, conf=conf)),
                             ('is_bearable(list)', lambda: is_bearable([1], h, conf=conf))):
                cov['evaluations'] += 1
                try:
                    fn()
                    cov['outcomes'].add((name, 'works'))
                except BaseException as e:
                    report(name, 'door', e)
            if cname == 'default':
                for name, fn in (('TypeHint', lambda: TypeHint(h)), ('is_subhint(h, int)', lambda: is_subhint(h, int)), ('is_subhint(int, h)', lambda: is_subhint(int, h)),
                                 ('is_subhint(h, h)', lambda: is_subhint(h, h))):
                    cov['evaluations'] += 1
                    try:
                        fn()
                        cov['outcomes'].add((name, 'works'))
                    except BaseException as e:
                        report(name, 'door', e)
        for w in rec:
            if w.category is UserWarning and (cname.endswith('-warns') or cname == 'warn') and 'violates type hint' in str(w.message):
                continue            # the violation itself, emitted as the configured warning category
            if not issubclass(w.category, BeartypeWarning) and not issubclass(w.category, (DeprecationWarning, SyntaxWarning)):
                viol.append((f'warning:{w.category.__name__}:{_family(label)}', f'hint {label}: warning {w.category.__name__}: {str(w.message)[:120]}', {'hint': label}))


def _family(label):
    """Signature abstraction of a malformed hint: factory name and the kind of junk."""
    import re
    return re.sub(r'Hostile\((\w+)\)', r'Hostile', label)


# ---- Part B ------------------------------------------------------------------------------------------------------
EXCS = [TypeError, AttributeError, KeyError, RecursionError, ValueError, LookupError, type('Custom', (Exception,), {})]


def passthrough(part):
    from beartype import beartype
    from beartype.door import is_bearable, die_if_unbearable
    from beartype.vale import Is
    viol, cov = part['violations'], part['cover']
    for E in EXCS:
        err = E('user code')

        armed = [False]

        def boom(*a, **k):
            raise err

        def boom_armed(*a, **k):
            # beartype probes isinstance()-ability of classes at decoration time and reports a raising hook as an
            # uncheckable hint; the property is about exceptions raised by hooks *during a call*
            if armed[0]:
                raise err
            return False
        sites = {}
        # wrapped body

        def body(a: int) -> int:
            raise err
        body.__annotations__ = {'a': int, 'return': int}
        sites['wrapped body'] = lambda: beartype(body)(1)
        # validator callable
        hv = typing.Annotated[int, Is[lambda x: boom()]]
        sites['Is[...] callable via is_bearable'] = lambda: is_bearable(1, hv)
        sites['Is[...] callable via die_if_unbearable'] = lambda: die_if_unbearable(1, hv)

        def fv(a):
            return a
        fv.__annotations__ = {'a': hv}
        sites['Is[...] callable via decorated call'] = lambda: beartype(fv)(1)
        sites['Is[...] callable nested in list'] = lambda: is_bearable([1], list[hv])
        # __instancecheck__ / __subclasscheck__
        Meta = type('Meta', (type,), {'__instancecheck__': boom_armed, '__subclasscheck__': boom_armed})
        K = Meta('K', (), {})
        sites['__instancecheck__ via is_bearable'] = lambda: is_bearable(1, K)
        sites['__instancecheck__ in list item'] = lambda: is_bearable([1], list[K])
        sites['__instancecheck__ in union'] = lambda: is_bearable(1.5, typing.Union[str, K])

        def fk(a):
            return a
        fk.__annotations__ = {'a': K}
        sites['__instancecheck__ via decorated call'] = lambda: beartype(fk)(1)
        sites['__subclasscheck__ via type[K]'] = lambda: is_bearable(int, type[K])
        # container protocol methods
        class C(list):
            pass
        for meth in ('__len__', '__getitem__', '__iter__'):
            Cm = type('C_' + meth, (list,), {meth: boom})
            sites[f'{meth} of a list subclass (list[int])'] = lambda Cm=Cm: is_bearable(Cm([1]), list[int])
            sites[f'{meth} of a list subclass (Iterable[int])'] = lambda Cm=Cm: is_bearable(Cm([1]), cabc.Iterable[int])
            sites[f'{meth} of a list subclass (die)'] = lambda Cm=Cm: die_if_unbearable(Cm(['a']), list[int])
        Dm = type('D_getitem', (dict,), {'__getitem__': boom})
        sites['__getitem__ of a dict subclass'] = lambda: is_bearable(Dm({1: 1}), dict[int, int])

        class It:
            def __iter__(self):
                return self

            def __next__(self):
                raise err

            def __len__(self):
                return 1

            def __contains__(self, x):
                return True
        sites['__next__ of a collection iterator'] = lambda: is_bearable(It(), cabc.Collection[int])

        class Eq(int):
            def __eq__(self, o):
                raise err
            __hash__ = int.__hash__
        sites['__eq__ against a Literal member'] = lambda: is_bearable(Eq(1), typing.Literal[1])
        # decorate / compile everything that involves the hooks while they are disarmed
        gk = beartype(fk)
        for hk in (K, list[K], typing.Union[str, K], type[K]):
            try:
                is_bearable(object(), hk)
            except Exception:
                pass
        sites['__instancecheck__ via decorated call'] = lambda: gk(1)
        for sname, thunk in sites.items():
            cov['evaluations'] += 1
            armed[0] = 'check' in sname
            try:
                with warnings.catch_warnings():
                    warnings.simplefilter('ignore')
                    thunk()
                cov['outcomes'].add(('user:' + sname, 'not reached / swallowed'))
                reached = False
            except BaseException as e:
                reached = True
                from beartype.roar import BeartypeCallHintViolation
                if isinstance(e, BeartypeCallHintViolation):
                    reached = False            # the check rejected the object without reaching this user code
                elif e is not err:
                    viol.append((f'user-exception-changed:{sname}:{E.__name__}->{type(e).__name__}',
                                 f'{E.__name__} raised by user code in {sname} came out as {type(e).__name__}: {str(e)[:140]}', {'site': sname, 'exc': E.__name__}))
                else:
                    cov['outcomes'].add(('user:' + sname, 'propagated unchanged'))
            cov['sites_reached' if reached else 'sites_not_reached'] += 1


def _work(shard):
    part = {'cover': {'evaluations': 0, 'outcomes': set(), 'sites_reached': 0, 'sites_not_reached': 0}, 'violations': []}
    for label, h in _STATE['hints'][shard::NSHARDS]:
        probe_hint(label, h, _STATE['confs'], part)
    if shard == 0:
        passthrough(part)
    part['cover']['outcomes'] = sorted(map(str, part['cover']['outcomes']))
    return part


def run(ctx):
    from beartype import BeartypeConf, FrozenDict
    hints, refused = malformed_hints(ctx.tier)
    confs = {'default': BeartypeConf(), 'tower': BeartypeConf(is_pep484_tower=True), 'overrides': BeartypeConf(hint_overrides=FrozenDict({str: typing.Union[str, bytes]}))}
    class ExcX(Exception):
        pass
    # exactly one of the parameter / return violation types is a warning category
    confs['param-warns'] = BeartypeConf(violation_param_type=UserWarning, violation_return_type=ExcX)
    confs['return-warns'] = BeartypeConf(violation_param_type=ExcX, violation_return_type=UserWarning)
    if not ctx.quick:
        confs['nonrandom'] = BeartypeConf(is_random=False)
        confs['warn'] = BeartypeConf(violation_type=UserWarning)
    _STATE.update(hints=hints, confs=confs)
    tot = {'evaluations': 0, 'sites_reached': 0, 'sites_not_reached': 0}
    outcomes = set()
    for part in ctx.pmap(_work, range(NSHARDS), fresh=True):
        for k in tot:
            tot[k] += part['cover'][k]
        outcomes |= set(part['cover']['outcomes'])
        for v in part['violations']:
            ctx.violation(*v)
    ctx.cover(
        evaluations=tot['evaluations'], states=len(hints) * len(confs), transitions=tot['evaluations'], traces_validated_against_impl=tot['evaluations'],
        distinct_nontrivial=len(outcomes), malformed_hints=len(hints), refused_by_typing_itself=refused, configurations=list(confs),
        user_exception_sites_reached=tot['sites_reached'], user_exception_sites_not_reached=tot['sites_not_reached'], exhaustive=True,
        samples=[hints[30][0], hints[len(hints) // 2][0], hints[-1][0]],
        rule=(f'E1: {len(hints)} hint-like objects = 26 junk values (numbers, bad strings, unhashable and hostile objects, modules, lambdas ...) bare and as '
              '1st / 2nd argument of 27 typing / builtin factories, wrong arities, and junk nested at depth 2 inside well-formed hints; x '
              f'{len(confs)} configurations x {{@beartype param, @beartype return + 4 calls, is_bearable, die_if_unbearable, TypeHint, is_subhint x3}}; every '
              'exception must be a public BeartypeException of the right family, every warning a BeartypeWarning.  Part B: 7 exception classes x '
              '~22 user-code sites must propagate the same exception object.  distinct_nontrivial = distinct (entry point, outcome) classes.'),
    )
    ctx.assume("exceptions raised by the harness's own hostile junk (__hash__/__eq__/__repr__/__instancecheck__) carry a marker class and count as user pass-through")
    if tot['sites_reached'] < 50:
        raise AssertionError(f'vacuous part B: only {tot["sites_reached"]} user-code sites reached')


def replay(ctx, case):
    print(case)
