"""C12 -- validator algebra: generated code == is_valid == boolean meaning == diagnosis.

E1 over validator expression terms (valemodel) x base hints x placements x objects.
"""
from __future__ import annotations

import itertools
import re
import warnings

from .. import drive
from ..model import hintsem as HS, objs as O, valemodel as VM

PROPERTY = 'C12'
NSHARDS = 64
_STATE = {}
V = O.V
A = lambda n: ('a', n)


def leaves():
    base = [('is', 'truthy'), ('is', 'pos'), ('is', 'never'), ('iseq', '1'), ('iseq', "'a'"), ('iseq', '[1]'),
            ('isinst', ('int',)), ('isinst', ('int', 'str')), ('issub', ('int',)), ('isinst', ('str',)),
            ('iseq', 'NEQ'), ('iseq', 'NAN')]          # operands that are not equal to themselves: identity must not count as equality
    inner = [('iseq', '1'), ('is', 'truthy'), ('isinst', ('str',)) if False else ('isinst', ('int', 'str'))]
    attr = [('isattr', 'x', v) for v in inner]
    attr += [('isattr', 'y', ('iseq', '1'))]
    attr += [('isattr', 'x', ('isattr', 'y', ('iseq', '1'))), ('isattr', 'x', ('isattr', 'x', ('iseq', '1'))),
             ('isattr', 'x', ('isattr', 'y', ('is', 'truthy')))]
    return base + attr


def reps():
    """Representative leaves for deeper products."""
    return [('is', 'pos'), ('iseq', '1'), ('isinst', ('int', 'str')), ('issub', ('int',)), ('isattr', 'x', ('iseq', '1')),
            ('isattr', 'x', ('isattr', 'x', ('iseq', '1'))), ('is', 'never')]


def exprs(tier):
    L = leaves()
    R = reps()
    d1 = [('not', v) for v in L]
    d1 += [(op, a, b) for op in ('and', 'or') for a in L for b in L if a != b]
    d1r = [('not', R[0]), ('not', R[4]), ('and', R[0], R[1]), ('or', R[1], R[4]), ('and', R[4], R[5]), ('or', R[3], R[0]),
           ('and', R[2], ('isattr', 'y', ('iseq', '1'))), ('or', R[6], R[2])]
    d2 = [('not', v) for v in (d1 if tier != 'quick' else d1[::5] + d1r)]
    pool2 = d1r + R
    d2 += [(op, a, b) for op in ('and', 'or') for a in d1r for b in pool2 if a != b]
    d2 += [(op, b, a) for op in ('and', 'or') for a in d1r for b in R]
    # IsAttr over compound validators, incl. the same attribute name at two levels with a sibling
    d2 += [('isattr', 'x', v) for v in d1r]
    d2 += [('isattr', 'x', ('and', ('isattr', 'x', ('iseq', '1')), ('isattr', 'y', ('iseq', '1')))),
           ('isattr', 'x', ('or', ('isattr', 'x', ('iseq', '1')), ('isattr', 'y', ('iseq', '1')))),
           ('isattr', 'x', ('and', ('isattr', 'y', ('iseq', '1')), ('isattr', 'x', ('iseq', '1')))),
           ('and', ('isattr', 'x', ('isattr', 'x', ('iseq', '1'))), ('isattr', 'x', ('isattr', 'y', ('iseq', '1'))))]
    out = L + d1 + d2
    if tier != 'quick':
        d2r = [('not', ('and', R[0], R[1])), ('not', ('or', R[1], R[4])), ('and', ('not', R[0]), R[2]),
               ('or', ('and', R[0], R[1]), ('not', R[4])), ('isattr', 'x', ('not', R[1]))]
        d3 = [('not', v) for v in d2[::3]]
        d3 += [(op, a, b) for op in ('and', 'or') for a in d2r for b in d1r + R + d2r if a != b]
        d3 += [(op, b, a) for op in ('and', 'or') for a in d2r for b in d1r + R]
        out += d3
    seen, res = set(), []
    for e in out:
        if e not in seen:
            seen.add(e)
            res.append(e)
    return res


def objects():
    o = lambda **kw: ('o', tuple((k, v) for k, v in kw.items()))
    return [V('1'), V('0'), V('2'), V('-1'), V('True'), V('False'), V("'a'"), V("''"), V('1.5'), V('None'),
            ('c', 'list', (V('1'),)), ('c', 'list', ()), ('cls', 'int'), ('cls', 'bool'), ('cls', 'str'), ('new', 'K'),
            o(), o(x=V('1')), o(x=V("'a'")), o(x=V('None')), o(x=V('0')), o(y=V('1')), o(x=V('1'), y=V('1')),
            o(x=o(y=V('1'))), o(x=o(y=V('0'))), o(x=o(x=V('1'))), o(x=o(x=V('1'), y=V('1'))), o(x=o(x=V('2'), y=V('1'))),
            o(x=o(x=o(x=V('1')), y=V('1'))), o(x=('cls', 'int')), o(x=o()), V('NEQ'), V('NAN'), o(x=V('NEQ')), ('c', 'list', (V('NAN'),))]


PLACEMENTS = ('root', 'list', 'tuple2', 'dictval', 'optional', 'seqseq')


def place(p, ann):
    if p == 'root':
        return ann, (lambda o: o)
    if p == 'list':
        return ('c1', 'list', ann), (lambda o: ('c', 'list', (o,)))
    if p == 'tuple2':
        return ('tf', 'b', A('int'), ann), (lambda o: ('c', 'tuple', (V('1'), o)))
    if p == 'dictval':
        return ('c2', 'dict', A('str'), ann), (lambda o: ('m', 'dict', ((V("'k'") if False else V("'a'"), o),)))
    if p == 'optional':
        return ('u', 'O', ann), (lambda o: o)
    if p == 'seqseq':
        return ('c1', 'Sequence', ('c1', 'list', ann)), (lambda o: ('c', 'tuple', (('c', 'list', (o,)),)))
    raise ValueError(p)


_DIAG_LINE = re.compile(r'^\s*(~\s*)?(True|False) == (.*)$')


def diag_leaf_values(text):
    """Booleans shown for leaf validators in a get_diagnosis() tree, in order."""
    out = []
    for line in text.splitlines():
        m = _DIAG_LINE.match(line)
        if not m:
            continue
        rest = m.group(3).rstrip()
        if rest == '(' or rest.endswith('('):
            continue
        out.append(m.group(2) == 'True')
    return out


def model_leaf_values(v, x):
    tag = v[0]
    if tag in ('and', 'or'):
        return model_leaf_values(v[1], x) + model_leaf_values(v[2], x)
    if tag == 'not':
        return model_leaf_values(v[1], x)
    return [VM.vsat(v, x)]


def _script(ht, ot, vts):
    return (drive.PRELUDE + f'''H = {HS.src(ht)}
x = {O.osrc(ot)}
print('is_bearable ->', is_bearable(x, H))
validators = [{', '.join(VM.vsrc(v) for v in vts)}]
print('is_valid ->', [v.is_valid(x) for v in validators])    # x here is the *root*; for nested placements compare on the item
try: die_if_unbearable(x, H); print('die_if_unbearable -> returned')
except Exception as e: print('die_if_unbearable ->', type(e).__name__, str(e)[:400])
''')


def check_expr(vts, base, part, objs, placements):
    """vts: tuple of validator terms placed in one Annotated[base, *vts]."""
    from beartype.door import is_bearable, die_if_unbearable
    from beartype.roar import BeartypeCallHintViolation, BeartypeDoorHintViolation
    viol, cov = part['violations'], part['cover']
    ann = ('ann', A(base)) + tuple(vts)
    sig = base + ';' + ','.join(VM.vsrc(v).replace('FUNCS', '') for v in vts)
    try:
        vals = [VM.vbuild(v) for v in vts]
    except Exception as e:
        viol.append((f'build:{sig}', f'building validator raised {type(e).__name__}: {e}', {'vterms': vts, 'base': base}))
        return
    # 1. is_valid agrees with the boolean meaning, on every object
    built = [(o, O.mk(o)) for o in objs]
    for o, x in built:
        for v, val in zip(vts, vals):
            cov['evaluations'] += 1
            try:
                got = val.is_valid(x)
            except Exception as e:
                got = f'raised {type(e).__name__}'
            want = VM.vsat(v, x)
            if got is not want:
                viol.append((f'is_valid:{sig}', f'{VM.vsrc(v)}.is_valid({O.osrc(o)}) = {got}, boolean meaning = {want}',
                             {'vterms': vts, 'base': base, 'oterm': o, 'placement': 'root', 'script': _script(ann, o, vts)}))
                return
    # 2. generated code agrees, at every placement
    for p in placements:
        ht, wrap = place(p, ann)
        try:
            h = HS.build(ht)
        except Exception as e:
            viol.append((f'hint:{p}:{sig}', f'building hint raised {type(e).__name__}: {e}', {'vterms': vts, 'base': base}))
            continue
        for o, x_item in built:
            wo = wrap(o)
            x = O.mk(wo)
            want = HS.sat_all(ann, x_item) or (p == 'optional' and x_item is None)
            cov['evaluations'] += 2
            cov['states'] += 1
            cov['accept' if want else 'reject'] += 1
            try:
                got = is_bearable(x, h)
            except Exception as e:
                got = f'raised {type(e).__name__}: {str(e)[:150]}'
            if got is not want:
                viol.append((f'code:{p}:{sig}', f'is_bearable({O.osrc(wo)}, {HS.src(ht)}) = {got}; boolean meaning = {want}',
                             {'vterms': vts, 'base': base, 'oterm': o, 'placement': p, 'script': _script(ht, wo, vts)}))
                break
            try:
                die_if_unbearable(x, h, conf=_STATE['nocolor'])
                raised = None
            except BeartypeDoorHintViolation as e:
                raised = e
            except Exception as e:
                viol.append((f'die:{p}:{sig}', f'die_if_unbearable({O.osrc(wo)}, {HS.src(ht)}) raised {type(e).__name__}: {str(e)[:150]}',
                             {'vterms': vts, 'base': base, 'oterm': o, 'placement': p, 'script': _script(ht, wo, vts)}))
                break
            if (raised is None) is not want:
                viol.append((f'die:{p}:{sig}', f'die_if_unbearable({O.osrc(wo)}, {HS.src(ht)}) {"returned" if raised is None else "raised"}; boolean meaning = {want}',
                             {'vterms': vts, 'base': base, 'oterm': o, 'placement': p, 'script': _script(ht, wo, vts)}))
                break
            # 3. the diagnosis in the message
            if raised is not None and HS.sat_all(A(base), x_item) and not (p == 'optional'):
                msg = str(raised)
                named = None
                for v, val in zip(vts, vals):
                    if f'violates validator {val!r}:' in msg:
                        named = (v, val)
                        break
                cov['diagnoses'] += 1
                if named is None:
                    viol.append((f'diag-none:{p}:{sig}', f'violation message names no validator although the base hint is satisfied: {msg[:300]!r}',
                                 {'vterms': vts, 'base': base, 'oterm': o, 'placement': p, 'script': _script(ht, wo, vts)}))
                    break
                if VM.vsat(named[0], x_item):
                    viol.append((f'diag-wrong:{p}:{sig}', f'violation message blames validator {named[1]!r}, which the object {O.osrc(o)} satisfies',
                                 {'vterms': vts, 'base': base, 'oterm': o, 'placement': p, 'script': _script(ht, wo, vts)}))
                    break
                tree = msg.split(f'violates validator {named[1]!r}:', 1)[1]
                got_leaves = diag_leaf_values(tree)
                want_leaves = model_leaf_values(named[0], x_item)
                if got_leaves != want_leaves:
                    viol.append((f'diag-tree:{p}:{sig}', f'diagnosis tree reports leaf verdicts {got_leaves}, boolean meaning {want_leaves} for {O.osrc(o)} against {named[1]!r}',
                                 {'vterms': vts, 'base': base, 'oterm': o, 'placement': p, 'script': _script(ht, wo, vts)}))
                    break


def _work(shard):
    work = _STATE['work'][shard::NSHARDS]
    part = {'cover': {'evaluations': 0, 'states': 0, 'accept': 0, 'reject': 0, 'diagnoses': 0, 'exprs': 0}, 'violations': []}
    objs = _STATE['objs']
    with warnings.catch_warnings():
        warnings.simplefilter('ignore')
        for vts, base, placements in work:
            part['cover']['exprs'] += 1
            check_expr(vts, base, part, objs, placements)
    return part


def run(ctx):
    drive.install_draw()
    from beartype import BeartypeConf
    _STATE['nocolor'] = BeartypeConf(is_color=False)
    ex = exprs(ctx.tier)
    work = []
    bases = ('object', 'int', 'K')
    for i, v in enumerate(ex):
        depth = VM.vdepth(v)
        if ctx.quick:
            pl = PLACEMENTS if depth <= 1 or i % 4 == ctx.seed % 4 else ('root', PLACEMENTS[1 + (i + ctx.seed) % 5])
            bs = ('object',) if depth >= 2 else (('object', 'int') if depth == 1 and i % 3 else bases)
        else:
            pl, bs = PLACEMENTS, bases if depth <= 2 else ('object',)
        for b in bs:
            work.append(((v,), b, pl))
    # two validators in one Annotated
    R = reps()
    for a, b in itertools.permutations(R[:6], 2):
        work.append(((a, b), 'object', PLACEMENTS))
    for a, b in itertools.permutations([('not', R[0]), ('and', R[4], R[5]), ('or', R[1], R[4]), R[4], R[5]], 2):
        work.append(((a, b), 'object', PLACEMENTS))
    # every ordered pair of plain leaves as two validators of one Annotated (the second must see the object, not an
    # intermediate value of the first), a few triples
    base_leaves = leaves()[:12]
    for n_pair, (a, b) in enumerate(itertools.permutations(base_leaves, 2)):
        if ((a, b), 'object', PLACEMENTS) not in work:
            work.append(((a, b), 'object', PLACEMENTS if not ctx.quick or (n_pair + ctx.seed) % 2 == 0 else ('root', 'list', 'dictval')))
    for a, b, c in itertools.permutations([('iseq', "'a'"), ('isinst', ('str',)), ('is', 'truthy'), ('iseq', '1')], 3):
        work.append(((a, b, c), 'object', ('root', 'list', 'tuple2')))
    _STATE['work'] = work
    _STATE['objs'] = objects()
    tot = {}
    for part in ctx.pmap(_work, range(NSHARDS)):
        for k, v in part['cover'].items():
            tot[k] = tot.get(k, 0) + v
        for v in part['violations']:
            ctx.violation(*v)
    ctx.cover(
        evaluations=tot['evaluations'], states=tot['states'], transitions=tot['evaluations'],
        traces_validated_against_impl=tot['evaluations'], distinct_nontrivial=tot['reject'],
        expressions=len(ex), annotated_hints=len(work), objects=len(_STATE['objs']), placements=list(PLACEMENTS),
        accepted=tot['accept'], rejected=tot['reject'], diagnoses_checked=tot['diagnoses'], exhaustive=(ctx.tier == 'thorough'),
        samples=[{'validator': VM.vsrc(ex[len(ex) // 2]), 'base': 'object', 'placement': 'dictval', 'object': O.osrc(_STATE['objs'][20])},
                 {'validator': VM.vsrc(ex[-1])}],
        rule=('E1: all validator expression terms over 16 leaves (Is, IsEqual, IsInstance, IsSubclass, IsAttr nested to depth 2 incl. '
              'the same attribute name on two levels) closed under ~ & | to depth 1 completely, depth 2 (3 thorough) over '
              'representatives; x base hints {object,int,K} x 6 placements (root, list item, tuple slot, dict value, Optional, '
              'nested sequence item: pith is an expression there) x 31 objects.  Compared: boolean model, V.is_valid, is_bearable, '
              'die_if_unbearable, the validator blamed in the message and the per-leaf verdicts of its diagnosis tree.  '
              'states = (hint, object) pairs; distinct_nontrivial = pairs the model rejects.'),
    )
    ctx.assume('boolean model valemodel.vsat (20 lines)')
    if not tot.get('accept') or not tot.get('reject') or not tot.get('diagnoses'):
        raise AssertionError('vacuous run')


def replay(ctx, case):
    drive.install_draw()
    from beartype import BeartypeConf
    _STATE['nocolor'] = BeartypeConf(is_color=False)
    part = {'cover': {'evaluations': 0, 'states': 0, 'accept': 0, 'reject': 0, 'diagnoses': 0, 'exprs': 0}, 'violations': []}
    vts = _tt(case['vterms'])
    objs = [_tt(case['oterm'])] if case.get('oterm') else objects()
    pl = [case['placement']] if case.get('placement') in PLACEMENTS else PLACEMENTS
    check_expr(vts, case['base'], part, objs, pl)
    for v in part['violations']:
        ctx.violation(*v)


def _tt(x):
    if isinstance(x, list):
        return tuple(_tt(i) for i in x)
    return x
