"""C07 -- string and postponed annotations are checked exactly like evaluated ones.

E1 over generated programs: hint source texts x placements (module function, method, method of a nested class, closure
in a function, closure in a method) x forms (evaluated, string literal, PEP 563 module, string literal inside a PEP 563
module, class defined later in the same scope) x histories (define then call; call while unresolved, define, call again;
closure factory invoked twice).  Each program is a real module executed from source.  Oracle: the verdict vector over
the object set of every string / postponed form equals that of the evaluated form in the same placement; a call made
while the name is unresolved raises a beartype forward-reference exception, not a violation, and the same wrapper works
once the name exists.
"""
from __future__ import annotations

import sys
import types
import warnings

PROPERTY = 'C07'
_STATE = {}

# hint source over the placeholder name N (the class the program defines)
HINTS = ['@', 'list[@]', 'dict[str, @]', '@ | None', 'Optional[@]', 'tuple[@, int]', 'list[list[@]]', 'Union[@, str]', 'type[@]', 'Sequence[@]',
         'tuple[@, ...]', 'dict[@, int]', 'list[@] | None', 'int']
# the program's class is a user generic: subscripted references to it are separate forward-reference proxies
GENERIC_HINTS = ['@[int]', 'list[@[int]]', '@[int] | None']
HINTS = HINTS[:-1] + GENERIC_HINTS + ['int']
# an object of the right outer shape whose innermost item is a plain object(): checking it needs the (unresolved) class
EARLY = {'@': 'object()', 'list[@]': '[object()]', 'dict[str, @]': "{'a': object()}", '@ | None': 'object()', 'Optional[@]': 'object()',
         'tuple[@, int]': '(object(), 1)', 'list[list[@]]': '[[object()]]', 'Union[@, str]': 'object()', 'type[@]': 'object', 'Sequence[@]': '[object()]',
         'tuple[@, ...]': '(object(),)', 'dict[@, int]': '{object(): 1}', 'list[@] | None': '[object()]',
         '@[int]': 'object()', 'list[@[int]]': '[object()]', '@[int] | None': 'object()'}
# objects: source over the names N (class), inst (an instance)
OBJS = ['inst', 'subinst', '[subinst]', '1', "'s'", '[inst]', '[1]', "{'a': inst}", "{'a': 1}", 'None', '(inst, 1)', '(1, inst)', '[[inst]]', '[[1]]', 'N', 'int', '(inst,)', '{inst: 1}', '[]']

PRE = 'from typing import *\nfrom collections.abc import Sequence\nfrom beartype import beartype\nT_ = TypeVar("T_")\n'


def program(placement, form, hint, cname):
    """Returns (source part 1, source part 2 or None, expression yielding [(N, f)] pairs to observe)."""
    H = hint.replace('@', cname)
    fut = 'from __future__ import annotations\n' if form in ('pep563', 'str-in-pep563', 'later-pep563') else ''
    quoted = form in ('str', 'str-in-pep563', 'later-str')
    ann = repr(H) if quoted else H
    later = form.startswith('later')
    # (a plain class deriving directly from object unless the hint subscripts it)
    cls = f'class {cname}{"(Generic[T_])" if "@[" in hint else ""}:\n    def __hash__(self): return 1\n'
    sig = f'(x: {ann}) -> {ann}'
    if placement == 'module':
        body = f'@beartype\ndef f{sig}:\n    return x\n'
        p1 = fut + PRE + ('' if later else cls) + body
        p2 = cls if later else None
        return p1, p2, f'[({cname}, f)]'
    if placement == 'method':
        body = f'class Holder:\n    @beartype\n    def m(self, x: {ann}) -> {ann}:\n        return x\n'
        p1 = fut + PRE + ('' if later else cls) + body
        p2 = cls if later else None
        return p1, p2, f'[({cname}, Holder().m)]'
    if placement == 'class-decorated':
        body = f'@beartype\nclass Holder:\n    def m(self, x: {ann}) -> {ann}:\n        return x\n    class Inner:\n        def n(self, x: {ann}) -> {ann}:\n            return x\n'
        p1 = fut + PRE + ('' if later else cls) + body
        p2 = cls if later else None
        return p1, p2, f'[({cname}, Holder().m), ({cname}, Holder.Inner().n)]'
    if placement == 'nested-method':
        body = f'class A:\n    class B:\n        @beartype\n        def m(self, x: {ann}) -> {ann}:\n            return x\n'
        p1 = fut + PRE + ('' if later else cls) + body
        p2 = cls if later else None
        return p1, p2, f'[({cname}, A.B().m)]'
    if placement == 'self-class':
        # the hint names the class being defined (only meaningful as a string / postponed form)
        Hs = hint.replace('@', 'Holder')
        anns = repr(Hs) if quoted or form == 'evaluated' else Hs
        body = f'@beartype\nclass Holder(Generic[T_]):\n    def __hash__(self): return 1\n    def m(self, x: {anns}) -> {anns}:\n        return x\n'
        return fut + PRE + body, None, '[(Holder, Holder().m)]'
    ind = lambda s, n=1: ''.join('    ' * n + l + '\n' for l in s.splitlines())
    if placement == 'nested-class-local':
        # the class the hint names is defined in the body of the nested class itself (before / after the method); the
        # enclosing decorated class binds the same name to something else
        meth = f'def n(self, x: {ann}) -> {ann}:\n    return x\n'
        inner = ('' if later else cls) + meth + (cls if later else '')
        body = f'@beartype\nclass Holder:\n    {cname} = bytes\n    class Inner:\n' + ind(inner, 2)
        return fut + PRE + body, None, f'[(Holder.Inner.{cname}, Holder.Inner().n)]'
    if placement == 'class-local':
        meth = f'def n(self, x: {ann}) -> {ann}:\n    return x\n'
        inner = ('' if later else cls) + meth + (cls if later else '')
        body = f'{cname} = bytes\n@beartype\nclass Holder:\n' + ind(inner, 1)
        return fut + PRE + body, None, f'[(Holder.{cname}, Holder().n)]'
    if placement == 'nested-class-alias':
        # the hint is a name bound in the nested class body to the (evaluated) hint; the enclosing class binds it differently
        a = repr('Alias') if quoted else 'Alias'
        body = (f'@beartype\nclass Holder:\n    Alias = bytes\n    def m(self, x: {a}) -> {a}:\n        return x\n'
                f'    class Inner:\n        Alias = {H}\n        def n(self, x: {a}) -> {a}:\n            return x\n')
        return fut + PRE + cls + body, None, f'[({cname}, Holder.Inner().n)]'
    if placement in ('closure', 'closure-overlap'):
        fname = 'make' if placement == 'closure' else f'make_{cname}_visitor'
        inner = (('' if later else cls) + f'@beartype\ndef f{sig}:\n    return x\n' + (cls if later else '') + f'return {cname}, f\n')
        p1 = fut + PRE + f'def {fname}():\n' + ind(inner)
        # the factory is invoked twice: two distinct local classes, two wrappers
        return p1, None, f'[{fname}(), {fname}()]'
    if placement == 'closure-foreign-decorator':
        # the closure is decorated by a helper living in ANOTHER module that has the same unqualified name as the factory
        # (and locals named like the program's class)
        inner = (('' if later else cls) + f'def f{sig}:\n    return x\nf = c07helper.make(f)\n' + (cls if later else '') + f'return {cname}, f\n')
        p1 = fut + PRE + 'import c07helper\ndef make():\n' + ind(inner)
        return p1, None, '[make(), make()]'
    if placement == 'closure-calls-inside':
        # the closure is called from inside its factory: before the local class exists (later forms) and after
        early = f"EARLY.append(early_outcome(f, {EARLY.get(hint, '1')!r}))\n" if later else ''
        inner = (('' if later else cls) + f'@beartype\ndef f{sig}:\n    return x\n' + early + (cls if later else '') + f'return verdicts({cname}, f)\n')
        p1 = fut + PRE + 'from bearmc.checks.c07 import verdicts, early_outcome\nEARLY = []\ndef make():\n' + ind(inner)
        return p1, None, '[make(), make(), make()]'
    if placement == 'closure-in-method':
        inner = (('' if later else cls) + f'@beartype\ndef f{sig}:\n    return x\n' + (cls if later else '') + f'return {cname}, f\n')
        p1 = fut + PRE + 'class Fac:\n    def make(self):\n' + ind(inner, 2)
        return p1, None, '[Fac().make(), Fac().make()]'
    raise ValueError(placement)


def verdicts(N, f):
    from beartype.roar import BeartypeCallHintViolation, BeartypeCallHintForwardRefException
    out = []
    try:
        inst = N()
    except Exception:
        inst = None
    try:
        subinst = type('Sub' + N.__name__, (N,), {})()        # instance of a direct subclass (MRO [Sub, N, object])
    except Exception:
        subinst = None
    env = {'N': N, 'inst': inst, 'subinst': subinst}
    for o in OBJS:
        x = eval(o, env)
        try:
            r = f(x)
            out.append('ok' if r is x else 'changed')
        except BeartypeCallHintViolation:
            out.append('viol')
        except Exception as e:
            out.append('E:' + type(e).__name__)
    return tuple(out)


def early_outcome(f, objsrc):
    from beartype.roar import BeartypeCallHintViolation, BeartypeCallHintForwardRefException
    try:
        f(eval(objsrc))
        return 'returned'
    except BeartypeCallHintForwardRefException:
        return 'forward-ref-exception'
    except BeartypeCallHintViolation:
        return 'violation'
    except Exception as e:
        return 'E:' + type(e).__name__


_COUNTER = [0]


def run_program(placement, form, hint, cname, unresolved_call=False):
    """Execute the program as a real module; returns (observations list, unresolved-call outcome)."""
    from beartype.roar import BeartypeCallHintForwardRefException, BeartypeCallHintViolation
    p1, p2, expr = program(placement, form, hint, cname)
    _COUNTER[0] += 1
    name = f'c07_mod_{_COUNTER[0]}'
    mod = types.ModuleType(name)
    sys.modules[name] = mod
    early = None
    try:
        with warnings.catch_warnings():
            warnings.simplefilter('ignore')
            exec(compile(p1, f'<{name}>', 'exec', dont_inherit=True), mod.__dict__)
            if p2 is not None and unresolved_call:
                # call while the class does not exist yet
                ns = dict(mod.__dict__)
                fexpr = expr.split(', ', 1)[1].rstrip(')]').split('), (')[0]
                try:
                    eval(fexpr, mod.__dict__)(eval(EARLY.get(hint, '1')))
                    early = 'returned'
                except BeartypeCallHintForwardRefException:
                    early = 'forward-ref-exception'
                except BeartypeCallHintViolation:
                    early = 'violation'
                except Exception as e:
                    early = 'E:' + type(e).__name__
            if p2 is not None:
                exec(compile(p2, f'<{name}>', 'exec', dont_inherit=True), mod.__dict__)
            pairs = eval(expr, mod.__dict__)
            if placement == 'closure-calls-inside':
                obs = list(pairs)                 # verdict vectors were computed inside the factory
                if mod.__dict__.get('EARLY'):
                    es = set(mod.__dict__['EARLY'])
                    early = es.pop() if len(es) == 1 else 'inconsistent:' + ','.join(sorted(es))
            else:
                obs = [verdicts(N, f) for N, f in pairs]
                if len(pairs) > 1 and pairs[0][0] is not pairs[1][0]:
                    # instances of the class of the *first* invocation handed to the closure of the second: to that closure
                    # they are instances of an unrelated class (appended to the second vector)
                    obs[1] = obs[1] + ('|cross|',) + verdicts(pairs[0][0], pairs[1][1])
    except Exception as e:
        return ('program-raised', type(e).__name__, str(e)[:160]), early, p1 + (p2 or '')
    finally:
        sys.modules.pop(name, None)
    return obs, early, p1 + (p2 or '')


PLACEMENTS = ['module', 'method', 'class-decorated', 'nested-method', 'closure', 'closure-overlap', 'closure-calls-inside', 'closure-in-method', 'closure-foreign-decorator', 'self-class',
              'nested-class-local', 'class-local', 'nested-class-alias']
FORMS = ['evaluated', 'str', 'pep563', 'str-in-pep563', 'later-str', 'later-pep563']


HELPER_SRC = '''from beartype import beartype
def make(func):
    K = bytes
    Node = bytes
    return beartype(func)
'''


def run(ctx):
    helper = types.ModuleType('c07helper')
    exec(compile(HELPER_SRC, '<c07helper>', 'exec', dont_inherit=True), helper.__dict__)
    sys.modules['c07helper'] = helper
    from .. import drive
    drive.install_draw()
    drive.DRAW[0] = 0          # one fixed draw: the forms must agree draw for draw (sampling itself is C02)
    hints = HINTS if not ctx.quick else HINTS[:10] + GENERIC_HINTS + ['int']
    n_eval = n_prog = 0
    outcomes = set()
    for placement in PLACEMENTS:
        for cname in ('K', 'Node'):
            for hint in hints:
                base = None
                for form in FORMS:
                    if placement in ('self-class', 'nested-class-alias') and form.startswith('later'):
                        continue
                    if placement == 'self-class' and form == 'evaluated':
                        # no evaluated form exists for a class naming itself: the quoted form in a plain module is the baseline
                        pass
                    for unresolved in ((False, True) if form.startswith('later') and placement in ('module', 'method', 'class-decorated', 'nested-method') else (False,)):
                        obs, early, src = run_program(placement, form, hint, cname, unresolved)
                        n_prog += 1
                        n_eval += len(OBJS) * (len(obs) if isinstance(obs, list) else 1)
                        sig = f'{placement}:{form}{"+early-call" if unresolved else ""}:{hint}:{cname}'
                        rep = {'placement': placement, 'form': form, 'hint': hint, 'class_name': cname, 'source': src}
                        if form == 'evaluated':
                            base = obs
                            if not isinstance(obs, list):
                                ctx.violation(f'baseline-fails:{sig}', f'the evaluated form itself fails: {obs}\n{src}', rep)
                                base = None
                            elif len(obs) > 1 and any(o[:len(OBJS)] != obs[0] for o in obs):
                                ctx.violation(f'factory-invocations-differ:{sig}', f'two invocations of the same factory give different verdict vectors: {obs}\n{src}', rep)
                            else:
                                outcomes |= set(obs[0])
                            continue
                        if base is None:
                            continue
                        if not isinstance(obs, list):
                            ctx.violation(f'form-fails:{sig}', f'{form} form fails where the evaluated form works: {obs}\n{src}', rep)
                            continue
                        for j, o in enumerate(obs):
                            if o != base[min(j, len(base) - 1)]:
                                diff = [((OBJS + ['|cross|'] + ['other-invocation:' + x for x in OBJS])[i], b, a) for i, (b, a) in enumerate(zip(base[min(j, len(base) - 1)], o)) if a != b][:4]
                                bj = base[min(j, len(base) - 1)]
                                cross_only = o[:len(OBJS)] == bj[:len(OBJS)]
                                ctx.violation((f'cross-invocation:class-defined-after-the-closure:{sig}' if form.startswith('later') else f'cross-invocation:{sig}') if cross_only else f'differs-from-evaluated:{sig}{":invocation2" if j else ""}',
                                              f'{form} form in placement {placement} (hint {hint.replace("@", cname)}{", second invocation of the factory" if j else ""}): '
                                              f'(object, evaluated form, this form) = {diff}\n{src}', rep)
                                break
                        if (unresolved or (placement == 'closure-calls-inside' and form.startswith('later'))) and early != 'forward-ref-exception' and '@' in hint:
                            ctx.violation(f'unresolved-call:{early}:{placement}', f'calling before the class exists gave {early}, expected a beartype forward-reference exception\n{src}', rep)
    ctx.cover(
        evaluations=n_eval, states=n_prog, transitions=n_eval, traces_validated_against_impl=n_prog, programs=n_prog, disagreements_checked=n_prog,
        distinct_nontrivial=len(outcomes) + n_prog // 10, hints=len(hints), placements=PLACEMENTS, forms=FORMS, objects=len(OBJS),
        distinct_verdicts=sorted(outcomes), exhaustive=True,
        samples=[program('closure-overlap', 'later-str', 'list[N]', 'Node')[0], program('nested-method', 'str-in-pep563', 'dict[str, N]', 'K')[0]],
        rule=(f'E1: {len(hints)} hint texts x {len(PLACEMENTS)} placements (module function, method, class-decorated incl. nested class, method of a nested '
              'class, closure, closure in a function whose name contains the class name, closure in a method, class naming itself, class defined in the '
              'body of the (nested) decorated class with the enclosing scope binding the same name differently, alias bound in a nested class body) x 6 forms '
              '(evaluated, string literal, PEP 563, string inside PEP 563, class defined later as string / PEP 563) x 2 class names x histories (closure also decorated through a same-named helper of another module) '
              '(later forms also with a call made before the class exists; closure factories invoked twice) x 19 objects (incl. an instance of a direct subclass); every program is a real '
              'module executed from source.  states = programs; evaluations = decorated calls.'),
    )
    if 'viol' not in outcomes or 'ok' not in outcomes:
        raise AssertionError('vacuous: verdicts ' + str(outcomes))


def replay(ctx, case):
    print(case.get('source'))
