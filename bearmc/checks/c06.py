"""C06 -- hook scoping follows the nearest registered package after any hook history.

Explicit-state exploration of *all* histories of beartype.claw operations up to a depth, in lock step with a
declarative model (clawmodel).  Every history is replayed on the real registry from a restored pristine snapshot
(the registry is plain data: two tries, a root configuration, one sys.path_hooks entry), all queries are compared with
the model after every step, and the restore itself is validated against forked processes (E2) on every depth-1 history
and a rotating sample of depth-2 histories.
"""
from __future__ import annotations

import itertools
import sys
import types
import warnings

from .. import snap

PROPERTY = 'C06'
_STATE = {}

QUERIES = ['a', 'a.b', 'a.b.c', 'a.bx', 'a.c', 'b', 'b.a', 'c', 'beartype', 'beartype.x', 'BL', 'BL.x', 'a.b.mod']


class ExcA(Exception):
    pass


class ExcB(Exception):
    pass


def confs():
    from beartype import BeartypeConf
    return {
        'A': BeartypeConf(violation_type=ExcA), 'B': BeartypeConf(violation_type=ExcB), 'A2': BeartypeConf(violation_type=ExcA),
        'D': BeartypeConf(), 'S': BeartypeConf(violation_type=ExcA, claw_skip_package_names=('a.b',)),
        # a skip list naming a child before its parent, and a sibling
        'S2': BeartypeConf(violation_type=ExcA, claw_skip_package_names=('b.a', 'b', 'c')), 'bad': 'not-a-conf',
    }


def conf_id(c):
    """Name a configuration returned by the implementation by the options that distinguish the alphabet's confs."""
    if c is None:
        return None
    vt = c.violation_type
    key = 'A' if vt is ExcA else 'B' if vt is ExcB else 'D'
    if c.claw_skip_package_names:
        key = 'S' if c.claw_skip_package_names == ('a.b',) else 'S2'
    return key


# ---------------------------------------------------------------------------------------------------------------
# The declarative model.
# ---------------------------------------------------------------------------------------------------------------
class Model:
    def __init__(self, builtin_excluded):
        self.white = {}            # registered dotted name -> conf id
        self.root = None           # beartype_all / beartyping conf id
        self.black = set()         # skipped dotted names
        self.stack = []            # saved roots of open beartyping() blocks, with a snapshot for the restore oracle
        self.builtin = builtin_excluded

    def copy(self):
        m = Model(self.builtin)
        m.white, m.root, m.black, m.stack = dict(self.white), self.root, set(self.black), list(self.stack)
        return m

    def canon(self):
        return (tuple(sorted(self.white.items())), self.root, tuple(sorted(self.black)))

    @staticmethod
    def _eq(c1, c2):
        n = {'A2': 'A'}
        return n.get(c1, c1) == n.get(c2, c2)

    def _norm(self, c):
        return {'A2': 'A'}.get(c, c)

    def hooked(self):
        return bool(self.white) or self.root is not None

    def lookup(self, name):
        parts = name.split('.')
        prefixes = ['.'.join(parts[:i]) for i in range(1, len(parts) + 1)]
        if any(p in self.black or p in self.builtin for p in prefixes):
            return None
        for p in reversed(prefixes):
            if p in self.white:
                return self.white[p]
        return self.root

    def apply(self, op):
        """Returns 'exc' or 'ok'; mutates only on 'ok'."""
        kind = op[0]
        if kind in ('all', 'package', 'packages', 'this', 'enter'):
            c = op[-1]
            if c == 'bad':
                return 'exc'
            c = self._norm(c)
        if kind == 'all':
            if self.root is not None and self.root != c:
                return 'exc'
            self._skip(op[-1])
            self.root = c
            return 'ok'
        if kind in ('package', 'packages', 'this'):
            names = [op[1]] if kind == 'package' else list(op[1]) if kind == 'packages' else ['a.b']
            if any(not _valid_name(n) for n in names) or not names:
                return 'exc'
            for n in names:
                if n in self.white and self.white[n] != c:
                    return 'exc'
            self._skip(op[-1])
            for n in names:
                self.white[n] = c
            return 'ok'
        if kind == 'enter':
            self.stack.append((self.root, self.canon()))
            self._skip(op[-1])
            self.root = c
            return 'ok'
        if kind == 'exit':
            self.root, _ = self.stack.pop()
            return 'ok'
        raise ValueError(op)

    def _skip(self, cname):
        if cname == 'S':
            self.black.add('a.b')
        if cname == 'S2':
            self.black.update(('b.a', 'b', 'c'))


def _valid_name(n):
    return isinstance(n, str) and n != '' and all(p.isidentifier() for p in n.split('.'))


# ---------------------------------------------------------------------------------------------------------------
# Driving the real registry.
# ---------------------------------------------------------------------------------------------------------------
def dump():
    """Canonical, address-free dump of the real registry."""
    from beartype.claw._clawstate import claw_state

    def trie(t, path=()):
        if id(t) in path:
            return ('<cycle>', ())           # a trie that contains itself (seen when the shared leaf sentinel is mutated)
        out = {}
        for k, v in t.items():
            out[k] = trie(v, path + (id(t),)) if isinstance(v, dict) else repr(v)
        c = getattr(t, 'conf_if_hooked', '-')
        return (conf_id(c) if c != '-' and c is not None else c, tuple(sorted(out.items())))
    hook = claw_state.beartype_path_hook
    return (trie(claw_state.packages_trie_whitelist), trie(claw_state.packages_trie_blacklist),
            hook is not None and hook in sys.path_hooks, sum(1 for h in sys.path_hooks if h is hook) if hook is not None else 0)


def lookups(bl_name):
    from beartype.claw._package.clawpkgtrie import get_package_conf_or_none
    out = []
    for q in QUERIES:
        try:
            out.append(conf_id(get_package_conf_or_none(q.replace('BL', bl_name))))
        except Exception as e:
            out.append('E:' + type(e).__name__)
    return tuple(out)


def snapshot():
    from beartype.claw._clawstate import claw_state

    from beartype.claw._package.clawpkgtrie import PackagesTrieBlacklisted

    def copy_trie(t):
        if t is PackagesTrieBlacklisted:
            return t                  # module-level sentinel compared by identity
        new = t.__class__.__new__(t.__class__)
        dict.__init__(new)
        for klass in type(t).__mro__:
            for slot in getattr(klass, '__slots__', ()):
                if hasattr(t, slot):
                    object.__setattr__(new, slot, getattr(t, slot))
        if hasattr(t, '__dict__'):
            new.__dict__.update(t.__dict__)
        for k, v in t.items():
            dict.__setitem__(new, k, copy_trie(v) if isinstance(v, dict) else v)
        return new
    return {
        'white': copy_trie(claw_state.packages_trie_whitelist), 'black': copy_trie(claw_state.packages_trie_blacklist),
        'hook': claw_state.beartype_path_hook, 'path_hooks': list(sys.path_hooks), 'copy': copy_trie,
        'modconf': dict(claw_state.module_name_to_beartype_conf),
    }


def restore(s, keep_module_confs=False):
    from beartype.claw._clawstate import claw_state
    from beartype.claw._package.clawpkgtrie import PackagesTrieBlacklisted
    dict.clear(PackagesTrieBlacklisted)        # the shared leaf sentinel must be empty (an operation may have mutated it)
    claw_state.packages_trie_whitelist = s['copy'](s['white'])
    claw_state.packages_trie_blacklist = s['copy'](s['black'])
    claw_state.beartype_path_hook = s['hook']
    sys.path_hooks[:] = s['path_hooks']
    if not keep_module_confs:
        claw_state.module_name_to_beartype_conf.clear()
        claw_state.module_name_to_beartype_conf.update(s['modconf'])
    sys.path_importer_cache.clear()


def _this_package_caller(conf):
    """Call beartype_this_package(conf=conf) from a synthetic module of package 'a.b'."""
    from beartype.claw import beartype_this_package
    mod = types.ModuleType('a.b.mod')
    mod.__package__ = 'a.b'
    ns = mod.__dict__
    ns['beartype_this_package'] = beartype_this_package
    ns['conf'] = conf
    exec('beartype_this_package(conf=conf)', ns)


def real_apply(op, C, cms):
    """Apply one operation to the real registry. Returns 'ok' | ('exc', class name)."""
    from beartype.claw import beartype_all, beartype_package, beartype_packages, beartyping
    from beartype.roar import BeartypeClawHookException
    kind = op[0]
    try:
        if kind == 'all':
            beartype_all(conf=C[op[1]])
        elif kind == 'package':
            beartype_package(op[1], conf=C[op[2]])
        elif kind == 'packages':
            beartype_packages(op[1], conf=C[op[2]])
        elif kind == 'this':
            _this_package_caller(C[op[1]])
        elif kind == 'enter':
            cm = beartyping(conf=C[op[1]])
            cm.__enter__()
            cms.append(cm)
        elif kind == 'exit':
            cm = cms.pop()
            cm.__exit__(None, None, None)
        return 'ok'
    except BeartypeClawHookException:
        return 'exc'
    except Exception as e:
        return ('foreign', type(e).__name__)


def alphabet(tier):
    ops = []
    for c in ('A', 'B', 'S', 'S2', 'bad'):
        ops.append(('all', c))
    names = ['a', 'a.b', 'a.b.c', 'b', 'beartype.x', 'BL.x', '']
    for n in names:
        for c in ('A', 'B') + (('A2',) if n == 'a.b' else ()):
            ops.append(('package', n, c))
    ops.append(('package', 'a', 'S'))
    ops.append(('package', 'a', 'S2'))
    ops.append(('package', 'a', 'bad'))
    ops.append(('packages', ('a', 'b'), 'A'))
    ops.append(('packages', ('b', 'a'), 'B'))
    ops.append(('packages', ('c', 'a.b'), 'B'))
    ops.append(('this', 'A'))
    ops.append(('this', 'B'))
    for c in ('A', 'B', 'D', 'S', 'bad'):
        ops.append(('enter', c))
    ops.append(('exit',))
    return ops


def op_src(op):
    k = op[0]
    if k == 'all':
        return f'beartype_all({op[1]})'
    if k == 'package':
        return f'beartype_package({op[1]!r}, {op[2]})'
    if k == 'packages':
        return f'beartype_packages({op[1]!r}, {op[2]})'
    if k == 'this':
        return f'beartype_this_package({op[1]}) [from a.b]'
    if k == 'enter':
        return f'enter beartyping({op[1]})'
    return 'exit beartyping'


def run_history(hist, ops, C, pristine, model0, bl_name, viols, check_all_steps):
    """Replay one history on the real registry from the pristine snapshot, in lock step with the model."""
    from beartype.claw._package.clawpkgtrie import get_package_conf_or_none
    restore(pristine)
    m = model0.copy()
    cms = []
    enter_dumps = []
    obs_last = None
    registered_inside = []          # per open block: did a global registration happen inside it?
    for step, opi in enumerate(hist):
        op = ops[opi]
        last = step == len(hist) - 1
        if op[0] == 'exit' and not m.stack:
            return None                      # not a legal history (exit without enter)
        before = dump()
        want = m.apply(op) if True else None
        got = real_apply(op, C, cms)
        if op[0] == 'enter' and want == 'ok' and got == 'ok':
            enter_dumps.append(before)
            registered_inside.append(False)
        elif op[0] == 'enter' and got != 'ok':
            pass
        if op[0] in ('all', 'package', 'packages', 'this') and want == 'ok':
            registered_inside[:] = [True] * len(registered_inside)
        after = dump()
        if not (last or check_all_steps):
            if got != want:
                return None if False else ('desync',)     # prefix already disagreed: reported by the shorter history
            if op[0] == 'exit':
                enter_dumps.pop()
                registered_inside.pop()
            continue
        hs = ' ; '.join(op_src(ops[i]) for i in hist)
        sig_op = op_src(op)
        rep = {'history': [op_src(ops[i]) for i in hist]}
        if got != want:
            what = {'ok': 'succeeded', 'exc': 'raised BeartypeClawHookException'}.get(got, f'raised {got}')
            viols.append((f'outcome:{sig_op}:{what.split()[-1]}:model-{want}:after:{_ctx_sig(hist[:-1], ops)}',
                          f'{sig_op} {what}; the model says {want} (history: {hs})', rep))
            return ('desync',)
        if got == 'exc' and after != before:
            viols.append((f'raising-op-changed-registry:{sig_op}:after:{_ctx_sig(hist[:-1], ops)}',
                          f'{sig_op} raised BeartypeClawHookException but changed the registry: {before} -> {after} (history: {hs})', rep))
        # queries
        for q in QUERIES:
            name = q.replace('BL', bl_name)
            try:
                gotc = conf_id(get_package_conf_or_none(name))
            except Exception as e:
                gotc = 'E:' + type(e).__name__
            wantc = m._norm(m.lookup(name)) if m.lookup(name) is not None else None
            if gotc != wantc:
                viols.append((f'lookup:{q}:{gotc}-vs-{wantc}:last={sig_op}:after:{_ctx_sig(hist[:-1], ops)}',
                              f'get_package_conf_or_none({name!r}) -> {gotc}, model (nearest registered ancestor, else beartype_all, unless skipped/excluded) says {wantc} (history: {hs})', rep))
                break
        # hook presence
        hook_present, hook_count = after[2], after[3]
        if hook_present != m.hooked() or hook_count > 1:
            viols.append((f'pathhook:{"present" if hook_present else "absent"}-x{hook_count}:model-{"present" if m.hooked() else "absent"}:last={sig_op}',
                          f'beartype path hook present={hook_present} (x{hook_count}) but the model says {m.hooked()} (history: {hs})', rep))
        if op[0] == 'exit' and got == 'ok':
            d0 = enter_dumps.pop()
            inside = registered_inside.pop()
            if not inside and after != d0:
                only_blacklist = (after[0], after[2], after[3]) == (d0[0], d0[2], d0[3])
                viols.append(('exit-does-not-restore:skipped-packages-stay-blacklisted' if only_blacklist else f'exit-does-not-restore:{_ctx_sig(hist, ops)}',
                              f'leaving beartyping() left {after}, the state before entering was {d0} (history: {hs})', rep))
        obs_last = (got, after, lookups(bl_name))
    return obs_last


def _ctx_sig(hist, ops):
    return ';'.join(op_src(ops[i]) for i in hist) or 'fresh'


def _fork_apply(opi, hist, ctx):
    """E2 cross-validation: the same history step on a forked real process (no restore involved)."""
    ops, C = _STATE['ops'], _STATE['C']
    cms = ctx if ctx is not None else []
    op = ops[opi]
    if op[0] == 'exit' and not cms:
        return ('illegal',), cms
    with warnings.catch_warnings():
        warnings.simplefilter('ignore')
        got = real_apply(op, C, cms)
    return (got, dump(), lookups(_STATE['bl'])), cms


def _explore_first(first):
    ops, C, pristine, model0, bl_name, depth = (_STATE[k] for k in ('ops', 'C', 'pristine', 'model0', 'bl', 'depth'))
    viols, states, inproc = [], set(), {}
    nhist = nsteps = 0
    core = list(range(len(ops)))
    deep = _STATE['core_deep']
    with warnings.catch_warnings():
        warnings.simplefilter('ignore')
        plans = [(d, core) for d in range(1, depth + 1)]
        if depth >= 4 and first in deep:
            plans.append((depth + 1, deep))
        for d, alph in plans:
            for rest in itertools.product(alph, repeat=d - 1):
                hist = (first,) + rest
                r = run_history(hist, ops, C, pristine, model0, bl_name, viols, check_all_steps=False)
                if r is None:
                    continue
                nhist += 1
                nsteps += d
                if r != ('desync',):
                    states.add(r[1])
                    if d <= 2:
                        inproc[hist] = r
        restore(pristine)
    # violations are deduplicated by signature in the parent; keep one representative per signature here
    seen, keepv = set(), []
    for v in viols:
        if v[0] not in seen:
            seen.add(v[0])
            keepv.append(v)
    return keepv, nhist, nsteps, states, inproc


def run(ctx):
    import beartype.claw  # noqa: F401
    from beartype._data.shame.module.datashamemod import BLACKLIST_PACKAGE_NAMES
    bl_name = sorted(BLACKLIST_PACKAGE_NAMES)[0] if BLACKLIST_PACKAGE_NAMES else 'no_builtin_excluded_package'
    C = confs()
    ops = alphabet(ctx.tier)
    ops = [tuple(x.replace('BL', bl_name) if isinstance(x, str) else x for x in op) for op in ops]
    depth = 3 if ctx.quick else 4
    pristine = snapshot()
    # built-in excluded packages = whatever the pristine registry excludes before any operation (read at run time)
    from beartype.claw._clawstate import claw_state
    builtin = set(BLACKLIST_PACKAGE_NAMES) | set(claw_state.packages_trie_blacklist.keys())
    model0 = Model(builtin)
    _STATE.update(ops=ops, C=C, bl=bl_name)
    _STATE.update(pristine=pristine, model0=model0, depth=depth)
    viols = []
    nhist = nsteps = 0
    states = set()
    inproc = {}
    keep = {('all', 'A'), ('all', 'B'), ('all', 'S'), ('package', 'a', 'A'), ('package', 'a.b', 'B'), ('package', 'a.b', 'A'),
            ('packages', ('c', 'a.b'), 'B'), ('enter', 'A'), ('enter', 'D'), ('enter', 'S'), ('enter', 'bad'), ('exit',)}
    _STATE['core_deep'] = [i for i, op in enumerate(ops) if op in keep]
    # one worker per first operation: every history starting with it, complete up to `depth`, and (thorough) one step
    # deeper over the reduced alphabet (enter/exit, conflicting registrations, skips)
    for part in ctx.pmap(_explore_first, list(range(len(ops))), fresh=True):
        v, nh, ns, st, ip = part
        viols += v
        nhist += nh
        nsteps += ns
        states |= st
        inproc.update(ip)
    restore(pristine)
    # ---- E2 cross-validation of the snapshot/restore discipline
    firsts = list(range(len(ops)))
    sample2 = [h for k, h in enumerate(sorted(h for h in inproc if len(h) == 2)) if k % 97 == ctx.seed % 97][:60]
    by_first = {}
    for h in sample2:
        by_first.setdefault(h[0], []).append(h[1])
    _STATE['by_first'] = by_first
    nfork = 0
    for res in ctx.pmap(_fork_first, firsts, fresh=True):
        for hist, obs in res:
            nfork += 1
            if obs == ('illegal',):
                continue
            want = inproc.get(tuple(hist))
            if want is not None and tuple(want) != tuple(obs):
                raise AssertionError(f'harness: in-process replay of {[op_src(ops[i]) for i in hist]} observed {want} but a forked process observed {obs}')
    for v in viols:
        ctx.violation(*v)
    ctx.cover(
        evaluations=nsteps, states=len(states), transitions=nhist, traces_validated_against_impl=nhist,
        distinct_nontrivial=len(states), histories=nhist, depth=depth, operations=len(ops), queries_per_state=len(QUERIES),
        histories_cross_checked_in_forked_processes=nfork, builtin_excluded_package_used=bl_name, exhaustive=True,
        samples=[[op_src(ops[i]) for i in h] for h in list(inproc)[:: max(1, len(inproc) // 3)][:3]],
        rule=(f'every history of length <= {depth}{"" if depth < 4 else " (and of length %d over a 12-operation core)" % (depth + 1)} over {len(ops)} operations (beartype_all, beartype_package(s) over '
              'equal / ancestor / descendant / sibling / builtin-excluded / invalid names, beartype_this_package from a synthetic module, '
              'beartyping() enter/exit nested, with equal, different, skipping and invalid configurations) replayed on the real registry from a '
              'restored pristine snapshot in lock step with the declarative model; after the last step: outcome class, 13 lookups, path-hook '
              'presence, registry unchanged by raising operations, exit restores the pre-enter dump.  states = distinct canonical registry '
              'dumps reached; transitions = histories; restore discipline validated against forked processes.'),
    )
    ctx.assume('the registry state lives in claw_state (two tries, root conf), sys.path_hooks and sys.path_importer_cache (snapshot/restore is '
               'cross-checked against forked processes for all depth-1 and a rotating sample of depth-2 histories)')


def _fork_first(first):
    o1, cms = _fork_apply(first, (), None)
    out = [((first,), o1)]
    seconds = _STATE['by_first'].get(first, [])
    if seconds and o1 != ('illegal',):
        out += snap.dfs(_fork_apply, len(_STATE['ops']), 1, (first,), lambda prefix: seconds, cms)
    return out


def replay(ctx, case):
    print('history:', case.get('history'))
