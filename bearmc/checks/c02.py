"""C02 -- guaranteed detection.  E1 over hint terms x structured violators.

O1  not sat_some(H, x)  =>  rejected by all three entry points for every draw residue and is_random in {T, F}
O2  sequence with only item i bad: some residue rejects (random); with is_random=False rejected for
    every draw iff i == 0.  Also through conforming single-item parents (dict value, tuple slot, union, ...).
O3  accepted => sat_some   (same implication, over the universal object pool)
O4  the draw function is called at most once per check, never when is_random=False or when the hint has no
    sampled node
O5  in generated code the draw only occurs as  r % len(x)   (justifies the residue quotient)
"""
from __future__ import annotations

import contextlib
import io
import re
import warnings

from .. import drive, hintenum as HE
from ..model import hintsem as HS, objs as O

PROPERTY = 'C02'
NSHARDS = 96
_STATE = {}
V = O.V


def _script(t, o, r, cname, expect):
    return (drive.PRELUDE + f'''H = {HS.src(t)}
conf = {drive.CONF_SRC[cname]}
mk = lambda: {O.osrc(o)}
DRAW[0] = {r}
# reference model: {expect}
print('is_bearable ->', is_bearable(mk(), H, conf=conf))
try:
    die_if_unbearable(mk(), H, conf=conf); print('die_if_unbearable -> returned')
except Exception as e: print('die_if_unbearable ->', type(e).__name__)
@beartype(conf=conf)
def f(a: H): return None
try:
    f(mk()); print('decorated -> returned')
except Exception as e: print('decorated ->', type(e).__name__)
''')


def wrap_single(gen, t):
    """[(parent term, wrap(objterm) -> objterm)] : conforming parents holding t's object as their only item."""
    A = HE.A
    return [
        (('c2', 'dict', A('str'), t), lambda o: ('m', 'dict', ((V("'a'"), o),))),
        (('tf', 'b', A('int'), t), lambda o: ('c', 'tuple', (V('1'), o))),
        (('u', 'U', t, A('none')), lambda o: o),
        (('c1', 'list', t), lambda o: ('c', 'list', (o,))),
        (('c1', 'Collection', t), lambda o: ('c', 'UColl', (o,))),
        (('c1', 'ValuesView', t), lambda o: ('view', 'values', ('m', 'dict', ((V('1'), o),)))),
    ]


def _verdicts(t, h, f, conf, o, r):
    """(is_bearable, die raised?, decorated raised?, draw calls tuple, exception-or-None) under draw r."""
    from beartype.door import is_bearable, die_if_unbearable
    from beartype.roar import BeartypeCallHintViolation
    drive.DRAW[0] = r
    calls = []
    out = []
    err = None
    c0 = drive.CALLS[0]
    try:
        out.append(bool(is_bearable(O.mk(o), h, conf=conf)))
    except Exception as e:
        out.append(None)
        err = e
    calls.append(drive.CALLS[0] - c0)
    c0 = drive.CALLS[0]
    try:
        die_if_unbearable(O.mk(o), h, conf=conf)
        out.append(True)
    except BeartypeCallHintViolation:
        out.append(False)
    except Exception as e:
        out.append(None)
        err = e
    calls.append(drive.CALLS[0] - c0)
    c0 = drive.CALLS[0]
    try:
        f(O.mk(o))
        out.append(True)
    except BeartypeCallHintViolation:
        out.append(False)
    except Exception as e:
        out.append(None)
        err = e
    calls.append(drive.CALLS[0] - c0)
    return out, calls, err


ENTRY = ('is_bearable', 'die_if_unbearable', 'decorated-param')


def check_hint(t, confs, gen, res, part, cap=None, seed=0, lcm=6):
    viol, cov = part['violations'], part['cover']
    try:
        h = HS.build(t)
        fs = {c: drive.make_param_only(h, conf) for c, conf in confs.items()}
    except Exception as e:
        viol.append((f'decorate:{type(e).__name__}:{HE.shape(t)}',
                     f'@beartype raised {type(e).__name__}: {str(e)[:200]} for H = {HS.src(t)}', {'hint': HS.src(t), 'term': t}))
        return
    sampling = HS.has_sampling(t)
    bads = gen.bad(t)
    if cap and len(bads) > cap:
        step = -(-len(bads) // cap)
        bads = bads[seed % step::step]
    # ---- O1 / O3 / O4
    for o in bads:
        cov['states'] += 1
        if o[0] in ('c', 'm', 'view') :
            cov['nontrivial'] += 1
        for cname, conf in confs.items():
            bad_found = False
            for r in res:
                out, calls, err = _verdicts(t, h, fs[cname], conf, o, r)
                cov['evaluations'] += 3
                for k, v in enumerate(out):
                    if v is not False:
                        what = 'accepted' if v else f'raised {type(err).__name__}: {str(err)[:120]}'
                        viol.append((f'O1:{ENTRY[k]}:{cname}:{HE.shape(t)}',
                                     f'{ENTRY[k]} {what} x = {O.osrc(o)} although no reading of H = {HS.src(t)} admits it '
                                     f'(not sat_some); draw = {r}, conf = {cname}',
                                     {'hint': HS.src(t), 'term': t, 'obj': O.osrc(o), 'oterm': o, 'draw': r, 'conf': cname,
                                      'oracle': 'O1', 'script': _script(t, o, r, cname, 'x violates H wherever one looks: every entry point must reject')}))
                        bad_found = True
                        break
                mx = 1 if (sampling and cname != 'nonrandom') else 0
                for k, c in enumerate(calls):
                    if c > mx:
                        viol.append((f'O4:{ENTRY[k]}:{cname}:{HE.shape(t)}',
                                     f'{ENTRY[k]} drew {c} random numbers (expected <= {mx}) for H = {HS.src(t)}, conf = {cname}',
                                     {'hint': HS.src(t), 'term': t, 'obj': O.osrc(o), 'oterm': o, 'draw': r, 'conf': cname, 'oracle': 'O4'}))
                        bad_found = True
                        break
                if bad_found:
                    break
    # ---- O2
    cases = [(t, h, fs, o, n, i) for o, n, i in gen.onebad(t)]
    for t2, h2, fs2, o, n, i in cases:
        _check_onebad(t2, h2, fs2, confs, o, n, i, lcm, part)
    if cases and part.get('nest', True):
        # the same one-bad sequences under conforming single-item parents (positions inside x)
        o, n, i = (cases[-1] if len(cases) < 3 else cases[2 + (seed % max(1, len(cases) - 2))])[3:]
        for pt, wrap in wrap_single(gen, t):
            try:
                ph = HS.build(pt)
                pfs = {c: drive.make_param_only(ph, conf) for c, conf in confs.items()}
                po = wrap(o)
                O.mk(po)
            except Exception as e:
                continue
            _check_onebad(pt, ph, pfs, confs, po, n, i, lcm, part)


def _check_onebad(t, h, fs, confs, o, n, i, lcm, part):
    viol, cov = part['violations'], part['cover']
    cov['onebad'] += 1
    for cname, conf in confs.items():
        rej = []
        for r in range(lcm):
            out, calls, err = _verdicts(t, h, fs[cname], conf, o, r)
            cov['evaluations'] += 3
            if err is not None:
                viol.append((f'O2:error:{cname}:{HE.shape(t)}', f'{type(err).__name__}: {str(err)[:160]} for x = {O.osrc(o)}, H = {HS.src(t)}',
                             {'hint': HS.src(t), 'term': t, 'obj': O.osrc(o), 'oterm': o, 'draw': r, 'conf': cname, 'oracle': 'O2', 'n': n, 'i': i}))
                return
            if len(set(out)) != 1:
                viol.append((f'O2:disagree:{cname}:{HE.shape(t)}', f'entry points disagree {dict(zip(ENTRY, out))} for x = {O.osrc(o)}, H = {HS.src(t)}, draw = {r}',
                             {'hint': HS.src(t), 'term': t, 'obj': O.osrc(o), 'oterm': o, 'draw': r, 'conf': cname, 'oracle': 'O2', 'n': n, 'i': i}))
                return
            if out[0] is False:
                rej.append(r)
        exact = [r for r in range(lcm) if r % n == i]
        cov['reach_exact' if rej == exact else 'reach_inexact'] += 1
        rep = {'hint': HS.src(t), 'term': t, 'obj': O.osrc(o), 'oterm': o, 'conf': cname, 'oracle': 'O2', 'n': n, 'i': i, 'draw': 0,
               'rejecting_residues': rej}
        if cname == 'nonrandom':
            if i == 0 and len(rej) != lcm:
                rep['script'] = _script(t, o, [r for r in range(lcm) if r not in rej][0], cname, 'is_random=False inspects item 0, which is bad: reject for every draw')
                viol.append((f'O2:nonrandom-first:{HE.shape(t)}', f'is_random=False: item 0 of x = {O.osrc(o)} violates H = {HS.src(t)} yet draws {sorted(set(range(lcm)) - set(rej))} accept', rep))
            elif i != 0 and rej:
                rep['script'] = _script(t, o, rej[0], cname, 'is_random=False inspects item 0 only, which is fine: accept')
                viol.append((f'O2:nonrandom-other:{HE.shape(t)}', f'is_random=False: only item {i} of x = {O.osrc(o)} violates H = {HS.src(t)} yet draws {rej} reject (item 0 is not the one inspected)', rep))
        else:
            if not rej:
                rep['script'] = _script(t, o, i, cname, f'only item {i} of {n} is bad: the draw r = {i} (r % {n} == {i}) must reject')
                viol.append((f'O2:unreachable:{cname}:{HE.shape(t)}', f'index {i} of a length-{n} sequence is unreachable: x = {O.osrc(o)} violates H = {HS.src(t)} only there and no draw residue rejects it (conf {cname})', rep))


_RI = '__beartype_random_int'
_OK_USES = [re.compile(r'^\s*' + _RI + r' = __beartype_getrandbits\(32\)\s*$'),
            re.compile(r'^\s*random_int=' + _RI + r',\s*$')]
_IDX = re.compile(r'\[' + _RI + r' % len\((\w+)\)\]')


def scan_source(t, part):
    """O5: every occurrence of the draw in generated code is `[r % len(name)]`, its assignment, or its hand-over to the error path."""
    from beartype import BeartypeConf
    h = HS.build(t)
    buf = io.StringIO()
    with contextlib.redirect_stdout(buf):
        drive.make_identity(h, BeartypeConf(is_debug=True))
    n = 0
    for line in buf.getvalue().splitlines():
        line = re.sub(r'^\(line \d+\) ', '', line)
        code = line.split('#', 1)[0] if line.lstrip().startswith('#') else line
        if _RI not in code:
            continue
        n += code.count(_RI)
        if any(p.match(code) for p in _OK_USES):
            continue
        rest = _IDX.sub('', code)
        if _RI in rest:
            part['violations'].append((f'O5:{HE.shape(t)}', f'generated code uses the draw other than as r % len(x): {code.strip()[:160]} (H = {HS.src(t)})',
                                       {'hint': HS.src(t), 'term': t, 'oracle': 'O5', 'line': code}))
    part['cover']['source_uses'] += n


def _work(shard):
    tier = _STATE['tier']
    hints = _STATE['shards'][shard]
    confs = _STATE['confs']
    res = _STATE['res']
    seed = _STATE['seed']
    part = {'cover': {'evaluations': 0, 'states': 0, 'nontrivial': 0, 'onebad': 0, 'reach_exact': 0, 'reach_inexact': 0,
                      'source_uses': 0, 'hints': 0}, 'violations': []}
    gen = O.Gen()
    cap = 50 if tier == 'quick' else 400
    with warnings.catch_warnings():
        warnings.simplefilter('ignore')
        for t in hints:
            part['cover']['hints'] += 1
            check_hint(t, confs, gen, res, part, cap, seed)
        for t in _STATE['scan'][shard::NSHARDS]:
            scan_source(t, part)
    return part


def run(ctx):
    assert HS.selftest() and O.selftest()
    drive.install_draw()
    allc = drive.confs()
    _STATE.update(tier=ctx.tier, seed=ctx.seed, hints=HE.hints(ctx.tier),
                  confs={'default': allc['default'], 'nonrandom': allc['nonrandom']},
                  res=drive.residues(3, ctx.tier))
    _STATE['shards'] = HE.shards(_STATE['hints'], NSHARDS)
    _STATE['scan'] = [t for t in _STATE['hints'] if HS.has_sampling(t)][:: (7 if ctx.quick else 2)]
    tot = {}
    for part in ctx.pmap(_work, range(NSHARDS), fresh=True):
        for k, v in part['cover'].items():
            tot[k] = tot.get(k, 0) + v
        for v in part['violations']:
            ctx.violation(*v)
    g = O.Gen()
    hs = _STATE['hints']
    samples = []
    for t in (hs[30], hs[len(hs) // 3], hs[-5]):
        b = g.bad(t)
        ob = g.onebad(t)
        samples.append({'hint': HS.src(t), 'violators': len(b), 'example_violator': O.osrc(b[len(b) // 2]) if b else None,
                        'one_bad_item_cases': len(ob), 'example_one_bad': (O.osrc(ob[-1][0]), ob[-1][1], ob[-1][2]) if ob else None})
    ctx.cover(
        evaluations=tot['evaluations'], states=tot['states'] + tot['onebad'], transitions=tot['evaluations'],
        traces_validated_against_impl=tot['evaluations'], distinct_nontrivial=tot['nontrivial'] + tot['onebad'],
        hints=len(hs), one_bad_sequences=tot['onebad'], residue_sets_exactly_i_mod_n=tot['reach_exact'],
        residue_sets_other=tot['reach_inexact'], generated_sources_scanned=len(_STATE['scan']),
        draw_occurrences_in_sources=tot['source_uses'], draws=_STATE['res'], exhaustive=(ctx.tier == 'thorough'),
        samples=samples,
        rule=('E1: every hint term of hintenum.hints(tier) x every structured violator (objs.Gen.bad: damage at exactly one '
              'position class -- root class, each fixed-tuple slot, tuple length +-1, literal, type[], union, validator, all items '
              '/ all keys / all values bad in every carrier class -- plus a universal pool, all filtered by NOT sat_some) x every '
              'draw residue x is_random in {T,F} x 3 entry points must reject (O1/O3) with <= 1 draw (O4); every sequence of '
              'length 1..3 with exactly item i bad (and the same under 6 conforming single-item parents) must have a rejecting '
              'residue, and under is_random=False reject iff i == 0 (O2); generated sources are scanned for the draw (O5). '
              'distinct_nontrivial = container violators + one-bad sequences.'),
    )
    ctx.assume('sat_some is the weakest reading under which the property promises rejection (DESIGN section 4)',
               'joint reachability of positions in nested sampled sequences is not asserted (single draw reused per level)')
    if tot['onebad'] == 0 or tot['source_uses'] == 0:
        raise AssertionError('vacuous: no one-bad sequences or no draw occurrence seen in generated code')


def replay(ctx, case):
    drive.install_draw()
    t = _tt(case['term'])
    allc = drive.confs()
    confs = {'default': allc['default'], 'nonrandom': allc['nonrandom']}
    part = {'cover': {'evaluations': 0, 'states': 0, 'nontrivial': 0, 'onebad': 0, 'reach_exact': 0, 'reach_inexact': 0,
                      'source_uses': 0, 'hints': 0}, 'violations': [], 'nest': False}
    if case.get('oracle') == 'O5':
        scan_source(t, part)
    elif case.get('oracle') == 'O2':
        h = HS.build(t)
        fs = {c: drive.make_param_only(h, conf) for c, conf in confs.items()}
        _check_onebad(t, h, fs, confs, _tt(case['oterm']), case['n'], case['i'], 6, part)
    else:
        gen = O.Gen()
        gen._bad[t] = [_tt(case['oterm'])] if case.get('oterm') else gen.bad(t)
        gen.onebad = lambda t: []
        check_hint(t, confs, gen, [case.get('draw', 0)], part)
    for v in part['violations']:
        ctx.violation(*v)


def _tt(x):
    if isinstance(x, list):
        return tuple(_tt(i) for i in x)
    return x
