"""C15 -- the public API is safe to use from many threads under every interleaving (E3).

Scenarios of 2 (3) real threads run under the controlled scheduler with a scheduling point on every line of every
inventoried shared-state function of beartype (mechanical AST inventory) and on every lock acquire; all schedules with at
most ``bound`` preemptions are executed (iterative preemption bounding).  Every execution uses FRESH hints / option
values so that each one starts cold on the tables that matter.  Oracle: no exception, no deadlock; per-thread results
equal the results of a sequential order; singleton identities; no lost registration.
"""
from __future__ import annotations

import itertools
import typing
import warnings

from .. import sched

PROPERTY = 'C15'
_K = itertools.count(1)
_STATE = {}


def _fresh_classes(n=2):
    k = next(_K)
    return [type(f'P{k}_{i}', (), {}) for i in range(n)]


# --- scenarios: each returns (make_fns, judge) where judge(results) -> None | str --------------------------------
def sc_typehint_identity():
    from beartype.door import TypeHint

    def make():
        k = next(_K)
        h = typing.Literal[f'th-{k}']
        return [lambda: TypeHint(h), lambda: TypeHint(h)]

    def judge(res):
        a, b = res
        if a is not b:
            return f'TypeHint(h) built by two threads are distinct objects ({a!r} / {b!r})'
    return make, judge


def sc_typehint_container():
    from beartype.door import TypeHint

    def make():
        P, Q = _fresh_classes()
        h = typing.Union[P, typing.List[Q]]
        return [lambda: TypeHint(h), lambda: TypeHint(h)]

    def judge(res):
        a, b = res
        if a is not b:
            return 'TypeHint(Union[P, List[Q]]) built by two threads are distinct objects'
        if len(a) != 2:
            return f'wrapper has {len(a)} children'
    return make, judge


def sc_conf_identity():
    from beartype import BeartypeConf

    def make():
        k = next(_K)
        kw = dict(claw_skip_package_names=(f'pkg{k}',), is_debug=False)

        def body():
            # construct and *use* the configuration at once (an object published before it is completely built is only
            # visible to a thread that reads it straight away)
            c = BeartypeConf(**kw)
            return c, (c.strategy.name, c.is_debug, c.claw_skip_package_names, len(repr(c)) > 10, hash(c) == hash(c), c == c)
        return [body, body]

    def judge(res):
        (a, ua), (b, ub) = res
        if ua != ub:
            return f'two threads read different contents from equal configurations: {ua} vs {ub}'
        if a is not b:
            return 'BeartypeConf(**kw) built by two threads are distinct objects'
    return make, judge


def sc_conf_distinct():
    from beartype import BeartypeConf

    def make():
        k = next(_K)
        return [lambda: BeartypeConf(claw_skip_package_names=(f'pa{k}',)), lambda: BeartypeConf(claw_skip_package_names=(f'pb{k}',)),
                lambda: BeartypeConf(claw_skip_package_names=(f'pa{k}',))]

    def judge(res):
        a, b, c = res
        if a is not c:
            return 'equal BeartypeConf arguments gave distinct objects'
        if a is b or a == b:
            return 'different BeartypeConf arguments gave equal objects'
    return make, judge


def sc_bearable_unions():
    from beartype.door import is_bearable

    def make():
        P, Q, R = _fresh_classes(3)
        h1 = typing.Union[P, Q]
        h2 = typing.Union[Q, R, typing.List[P]]
        return [lambda: (is_bearable(P(), h1), is_bearable(R(), h1)), lambda: (is_bearable(R(), h2), is_bearable(P(), h2), is_bearable([P()], h2))]

    def judge(res):
        if res != [(True, False), (True, False, True)]:
            return f'is_bearable over fresh unions answered {res}, a single thread answers [(True, False), (True, False, True)]'
    return make, judge


def sc_bearable_same_hint():
    from beartype.door import is_bearable, die_if_unbearable
    from beartype.roar import BeartypeDoorHintViolation

    def make():
        P, Q = _fresh_classes()
        h = typing.Dict[str, typing.Union[P, typing.Tuple[Q, ...]]]

        def t2():
            try:
                die_if_unbearable({'k': 3}, h)
                return 'accepted'
            except BeartypeDoorHintViolation:
                return 'violation'
        return [lambda: (is_bearable({'k': P()}, h), is_bearable({'k': (Q(), 1)}, h)), t2]

    def judge(res):
        if res != [(True, False), 'violation'] and res != [(True, True), 'violation']:
            return f'checks of one fresh hint from two threads answered {res}'
        if res[0][0] is not True:
            return f'conforming object rejected: {res}'
    return make, judge


def sc_decorate_and_check():
    from beartype import beartype
    from beartype.door import is_bearable
    from beartype.roar import BeartypeCallHintViolation

    def make():
        P, Q = _fresh_classes()
        h = typing.Union[typing.List[P], Q, None]

        def t1():
            def f(a):
                return a
            f.__annotations__ = {'a': h, 'return': h}
            g = beartype(f)
            out = [g(None) is None, isinstance(g([P()]), list)]
            try:
                g(3)
                out.append('accepted')
            except BeartypeCallHintViolation:
                out.append('violation')
            return out
        if _STATE.get('quick'):
            return [t1, lambda: (is_bearable([P()], h), is_bearable(3, h))]
        return [t1, lambda: (is_bearable([P()], h), is_bearable(3, h)), t1]

    def judge(res):
        want = [[True, True, 'violation'], (True, False), [True, True, 'violation']][:len(res)]
        if res != want:
            return f'decorate || check || decorate over one fresh hint answered {res}, sequentially {want}'
    return make, judge


def sc_decorate_forward_unions():
    """Two threads decorate callables whose hints are unions mixing two plain classes with a forward reference that is
    still unresolvable at decoration time (the code generator partitions the union's types into references and classes
    in scratch lists); afterwards the names are defined and both wrappers are called."""
    from beartype import beartype
    from beartype.roar import BeartypeCallHintViolation
    import sys
    import types as _types

    def make():
        k = next(_K)
        P, Q = _fresh_classes()
        modname = f'c15_fwd_{k}'
        mod = _types.ModuleType(modname)
        sys.modules[modname] = mod
        made = {}

        def body(tag, cls, other):
            def run():
                def f(a):
                    return a
                f.__module__ = modname
                f.__annotations__ = {'a': typing.Union[f'Later{tag}', cls, int]}
                made[tag] = beartype(f)
                return 'decorated'
            return run
        made['P'], made['Q'], made['mod'] = P, Q, mod
        _STATE['fwd_made'] = made
        return [body('A', P, Q), body('B', Q, P)]

    def judge(res):
        made = _STATE['fwd_made']
        P, Q, mod = made['P'], made['Q'], made['mod']
        LaterA = type('LaterA', (), {})
        LaterB = type('LaterB', (), {})
        mod.LaterA, mod.LaterB = LaterA, LaterB
        out = []
        for tag, ok_objs, bad_objs in (('A', (P(), 1, LaterA()), (Q(), 's', LaterB())), ('B', (Q(), 1, LaterB()), (P(), 's', LaterA()))):
            g = made.get(tag)
            if g is None:
                return f'thread {tag} did not produce a wrapper'
            for x in ok_objs:
                try:
                    g(x)
                except Exception as e:
                    return f'wrapper {tag} (Union[Later{tag}, class, int]) raised {type(e).__name__} for the conforming {type(x).__name__} instance'
            for x in bad_objs:
                try:
                    g(x)
                    return f'wrapper {tag} accepted the violating {type(x).__name__} instance'
                except BeartypeCallHintViolation:
                    pass
                except Exception as e:
                    return f'wrapper {tag} raised {type(e).__name__} for the violating {type(x).__name__} instance'
    return make, judge


def sc_register_packages():
    from beartype.claw import beartype_package
    from beartype.claw._package.clawpkgtrie import get_package_conf_or_none
    from . import c06
    C = _STATE['C6']

    def make():
        c06.restore(_STATE['pristine'])
        return [lambda: beartype_package('a', conf=C['A']), lambda: beartype_package('b', conf=C['B']),
                lambda: (c06.conf_id(get_package_conf_or_none('a.x')), c06.conf_id(get_package_conf_or_none('b.x')))]

    def judge(res):
        got = (c06.conf_id(get_package_conf_or_none('a.x')), c06.conf_id(get_package_conf_or_none('b.x')))
        if got != ('A', 'B'):
            return f'lost registration: after beartype_package(a, A) || beartype_package(b, B) the lookups give {got}'
        if res[2][0] not in (None, 'A') or res[2][1] not in (None, 'B'):
            return f'concurrent lookup answered {res[2]}, which no sequential order produces'
        import sys
        from beartype.claw._clawstate import claw_state
        n = sum(1 for h in sys.path_hooks if h is claw_state.beartype_path_hook)
        if n != 1:
            return f'path hook installed {n} times'
    return make, judge


def sc_beartyping_vs_lookup():
    from beartype.claw import beartyping, beartype_all
    from beartype.claw._package.clawpkgtrie import get_package_conf_or_none
    from . import c06
    C = _STATE['C6']

    def make():
        c06.restore(_STATE['pristine'])
        beartype_all(conf=C['B'])

        def t1():
            with beartyping(conf=C['A']):
                inner = c06.conf_id(get_package_conf_or_none('zzz'))
            return inner
        return [t1, lambda: c06.conf_id(get_package_conf_or_none('zzz'))]

    def judge(res):
        after = c06.conf_id(get_package_conf_or_none('zzz'))
        if res[0] != 'A':
            return f'inside beartyping(A) the lookup gave {res[0]}'
        if res[1] not in ('A', 'B'):
            return f'a concurrent lookup gave {res[1]}: neither the outer (B) nor the inner (A) configuration'
        if after != 'B':
            return f'after the block the outer configuration is {after}, not B'
    return make, judge


def sc_beartyping_vs_all():
    """with beartyping(A): pass  ||  beartype_all(B), from a pristine registry.  Orders of {enter, exit, all(B)}: all(B) first or
    last -> it succeeds and B is registered afterwards; all(B) inside the block -> it conflicts with A and nothing stays
    registered.  A successful beartype_all(B) whose registration is gone afterwards is a lost registration."""
    from beartype.claw import beartyping, beartype_all
    from beartype.claw._package.clawpkgtrie import get_package_conf_or_none
    from beartype.roar import BeartypeClawHookException
    from . import c06
    C = _STATE['C6']

    def make():
        c06.restore(_STATE['pristine'])

        def t1():
            with beartyping(conf=C['A']):
                pass
            return 'done'

        def t2():
            try:
                beartype_all(conf=C['B'])
                return 'registered'
            except BeartypeClawHookException:
                return 'conflict'
        return [t1, t2]

    def judge(res):
        after = c06.conf_id(get_package_conf_or_none('zzz'))
        if res[1] == 'registered' and after != 'B':
            return f'lost registration: beartype_all(B) returned successfully but afterwards the global configuration is {after}'
        if res[1] == 'conflict' and after is not None:
            return f'beartype_all(B) raised a conflict yet afterwards the global configuration is {after}'
    return make, judge


def sc_pool():
    from beartype._util.cache.pool.utilcachepoolinstance import acquire_instance, release_instance

    def make():
        def body(tag):
            def run():
                l = acquire_instance(list)
                if l:
                    return f'acquired a non-empty list {l}'
                l.append(tag)
                l.append(tag)
                ok = l == [tag, tag]
                l.clear()
                release_instance(l)
                return ok
            return run
        return [body('x'), body('y'), body('z')]

    def judge(res):
        if res != [True, True, True]:
            return f'pooled list shared between in-flight operations: {res}'
    return make, judge


SCENARIOS = {
    'TypeHint(h) x2 identity': sc_typehint_identity,
    'TypeHint(Union[P, List[Q]]) x2 identity': sc_typehint_container,
    'BeartypeConf(kw) x2 identity': sc_conf_identity,
    'BeartypeConf a|b|a': sc_conf_distinct,
    'is_bearable over fresh unions x2': sc_bearable_unions,
    'checks of one fresh hint x2': sc_bearable_same_hint,
    'decorate | check | decorate': sc_decorate_and_check,
    'decorate Union[fwd, P, int] | decorate Union[fwd, Q, int]': sc_decorate_forward_unions,
    'beartype_package(a) | beartype_package(b) | lookup': sc_register_packages,
    'beartyping(A) | lookup': sc_beartyping_vs_lookup,
    'beartyping(A) | beartype_all(B)': sc_beartyping_vs_all,
    'pooled list x3': sc_pool,
}


def _scenario(name):
    """Explore one scenario in a process of its own (forked fresh): warm-up, lock replacement, exploration."""
    import beartype.claw  # noqa
    from . import c06
    inv = dict(_STATE['inv'])
    _STATE['pristine'] = c06.snapshot()
    # warm-up first (imports every lazily imported beartype module, fills the tables shared by all fresh inputs), THEN
    # replace the locks, so that no module imported later can hold a real lock
    with warnings.catch_warnings():
        warnings.simplefilter('ignore')
        for n2, factory in SCENARIOS.items():
            make, judge = factory()
            for _ in range(2):
                for f in make():
                    f()
    c06.restore(_STATE['pristine'])
    nlocks = sched.replace_locks()
    assert nlocks >= 4, f'only {nlocks} beartype locks found to replace'
    assert sched.replace_locks() == 0, 'a real lock survived replacement'
    viols = []
    make, judge = SCENARIOS[name]()

    def check(s):
        errs = [e for e in s.errors if e is not None]
        sig = None
        if isinstance(s.fatal, sched.Deadlock):
            sig, what = f'deadlock:{name}', str(s.fatal)
        elif isinstance(s.fatal, sched.Hang):
            raise AssertionError(f'harness: {s.fatal} [scenario {name}; schedule {s.choices[:80]}]')
        elif s.fatal is not None:
            sig, what = f'{type(s.fatal).__name__}:{name}', str(s.fatal)
        elif errs:
            e = errs[0]
            sig, what = f'exception:{name}:{type(e).__name__}', f'thread raised {type(e).__name__}: {str(e)[:200]}'
        else:
            bad = judge(s.results)
            if bad:
                sig, what = f'result:{name}', bad
        if sig:
            pre = sum(1 for (nopt, run_en, lab), c in zip(s.points, s.choices) if run_en and c != 0)
            where = [str(lab) for (nopt, run_en, lab), c in zip(s.points, s.choices) if run_en and c != 0][:4]
            if len(viols) < 50:
                viols.append((sig, f'{what}  [scenario {name}; {pre} preemption(s) at {where}; schedule {s.choices[:60]}]',
                              {'scenario': name, 'choices': list(s.choices)}))
            return 'BAD:' + sig
        return 'ok'
    with warnings.catch_warnings():
        warnings.simplefilter('ignore')
        # iterate the bound: bound 1 is always completed before bound 2 is started, so a cap can only cut bound 2 short
        st = None
        for b in range(1, _STATE['bound'] + 1):
            sb = sched.explore(make, check, inv, bound=b, max_exec=_STATE['cap'])
            if st is None:
                st = sb
            else:
                for k in ('executions', 'divergences', 'deadlocks'):
                    st[k] += sb[k]
                st['points_max'] = max(st['points_max'], sb['points_max'])
                st['capped'] = sb['capped']
                st['distinct_outcomes'] |= sb['distinct_outcomes']
            if sb['capped']:
                break
    return name, {k: st[k] for k in ('executions', 'points_max', 'capped', 'divergences', 'deadlocks')}, sorted(st['distinct_outcomes']), viols, nlocks


def run(ctx):
    from . import c06
    assert sched.selftest()
    inv = sched.inventory()
    nfun = inv.pop('__functions__')
    bound = 1 if ctx.quick else 2
    cap = 4000 if ctx.quick else 40000
    _STATE.update(C6=c06.confs(), quick=ctx.quick, inv=inv, bound=bound, cap=cap)
    tot = {'executions': 0, 'points_max': 0, 'deadlocks': 0, 'divergences': 0}
    per = {}
    outcomes = set()
    nlocks = 0
    for name, st, outs, viols, nl in ctx.pmap(_scenario, list(SCENARIOS), fresh=True):
        nlocks = nl
        per[name] = {'executions': st['executions'], 'max_points': st['points_max'], 'capped': st['capped'], 'divergences': st['divergences']}
        for k in tot:
            tot[k] = tot[k] + st[k] if k != 'points_max' else max(tot[k], st[k])
        outcomes |= {f'{name}:{o}' for o in outs}
        for v in viols:
            ctx.violation(*v)
    per = {n: per[n] for n in SCENARIOS if n in per}
    capped = [n for n, p in per.items() if p['capped']]
    ctx.cover(
        evaluations=tot['executions'], states=tot['executions'], transitions=sum(p['executions'] * max(1, p['max_points']) for p in per.values()),
        traces_validated_against_impl=tot['executions'], distinct_nontrivial=sum(1 for p in per.values() if p['executions'] > 1) + len(per),
        schedules=tot['executions'], preemption_bound_completed=bound if not capped else f'{bound} (capped at {cap} schedules for: {capped}; bound {bound - 1} complete)',
        scenarios=per, inventory_functions=nfun, inventory_files=len(inv), locks_replaced=nlocks, deadlocks=tot['deadlocks'],
        replay_divergences=tot['divergences'], distinct_outcomes=sorted(outcomes)[:20], exhaustive=not capped,
        samples=[{'scenario': n, **p} for n, p in list(per.items())[:4]],
        rule=(f'E3: {len(SCENARIOS)} scenarios of 2-3 real threads over fresh inputs (one process per scenario), executed under a settrace baton scheduler with a '
              f'scheduling point on every line of the {nfun} inventoried shared-state functions of beartype (AST scan: functions touching '
              'module-level mutable containers, pool / cache primitives or locks) and on every acquire of the cooperative locks that '
              f'replace beartype\'s {nlocks} lock objects; every schedule with <= {bound} preemption(s) is executed (CHESS iterative '
              'preemption bounding).  states/evaluations = schedules executed; transitions ~ scheduling decisions.'),
    )
    ctx.assume('GIL semantics: a line of an inventoried function is atomic unless it calls into another inventoried function',
               'lines of functions outside the inventory touch only thread-local or immutable state (independence argument)',
               'each execution uses fresh hints / option values; tables shared by all executions are warmed up first')


def replay(ctx, case):
    print(case)
