"""C04 -- the wrapper is transparent and checks each argument against its own parameter.

E1 over signatures x call shapes, with CPython itself as the binding oracle: an undecorated *twin* of every function
(same parameters, no annotations) is called with the same arguments and reports its locals; defaults are unique
wrong-typed sentinels, so a bound value that *is* its parameter's sentinel was not passed.
"""
from __future__ import annotations

import itertools
import warnings

PROPERTY = 'C04'
NSHARDS = 64
_STATE = {}


class Sentinel:
    def __init__(self, name):
        self.name = name

    def __repr__(self):
        return f'<default of {self.name}>'


GOOD, BAD, NONE = 7, 's', None
_NO_DEFAULT = object()
RET = object()


class BodyError(Exception):
    pass


def signatures(tier):
    """Yield (params, star, kw) where params = [(name, kind, annotated, has_default)], kind in 'p' posonly, 'f' flexible,
    'k' kwonly; star / kw = None | 'ann' | 'plain'."""
    maxk = 1 if tier == 'quick' else 2
    out = []
    for npos, nflex, nkwo in itertools.product(range(maxk + 1), range(maxk + 1), range(maxk + 1)):
        for star in (None, 'ann', 'plain'):
            for kw in (None, 'ann', 'plain'):
                names = [(f'p{i}', 'p') for i in range(npos)] + [(f'f{i}', 'f') for i in range(nflex)] + [(f'k{i}', 'k') for i in range(nkwo)]
                n = len(names)
                npositional = npos + nflex
                # annotation masks: all for small n, else representative (none, all, each single, each all-but-one)
                if n <= 3:
                    amasks = list(itertools.product((False, True), repeat=n))
                else:
                    amasks = {tuple([False] * n), tuple([True] * n)}
                    for i in range(n):
                        amasks.add(tuple(j == i for j in range(n)))
                        amasks.add(tuple(j != i for j in range(n)))
                    amasks = sorted(amasks)
                # defaults: positional defaults form a suffix; kwonly any subset
                pdefs = [tuple(i >= s for i in range(npositional)) for s in range(npositional + 1)]
                kdefs = list(itertools.product((False, True), repeat=nkwo))
                if tier == 'quick':
                    pdefs = pdefs[::max(1, len(pdefs) - 1)] if len(pdefs) > 2 else pdefs
                for am in amasks:
                    if not any(am) and star != 'ann' and kw != 'ann':
                        continue          # nothing annotated: beartype returns the function undecorated (C13)
                    for pd in pdefs:
                        for kd in kdefs:
                            defs = pd + kd
                            params = [(nm, kind, am[i], defs[i]) for i, (nm, kind) in enumerate(names)]
                            out.append((tuple(params), star, kw))
    return out


def source(params, star, kw, annotated, body):
    parts = []
    seen_slash = False
    pos = [p for p in params if p[1] == 'p']
    flex = [p for p in params if p[1] == 'f']
    kwo = [p for p in params if p[1] == 'k']

    def one(p):
        nm, kind, ann, dflt = p
        s = nm
        if annotated and ann:
            s += ': int'
        if dflt:
            s += f' = D_{nm}' if not (annotated and ann) else f' = D_{nm}'
        return s
    parts += [one(p) for p in pos]
    if pos:
        parts.append('/')
    parts += [one(p) for p in flex]
    if star:
        parts.append('*args' + (': int' if annotated and star == 'ann' else ''))
    elif kwo:
        parts.append('*')
    parts += [one(p) for p in kwo]
    if kw:
        parts.append('**kwargs' + (': int' if annotated and kw == 'ann' else ''))
    names = [p[0] for p in params]
    loc = ', '.join(f'{n!r}: {n}' for n in names)
    if star:
        loc += (', ' if loc else '') + "'*': args"
    if kw:
        loc += (', ' if loc else '') + "'**': kwargs"
    return f'def f({", ".join(parts)}):\n    LOG.append({{{loc}}})\n    {body}\n'


def call_shapes(params, star, kw, tier):
    """[(positional values tuple, keyword dict)] over the value alphabet; one slot deviates from GOOD at a time."""
    names = [p[0] for p in params]
    npositional = sum(1 for p in params if p[1] in 'pf')
    # surplus keywords: a name no signature uses, and a name other signatures decorated in the same process use for a named
    # parameter (it must still be treated as surplus here)
    foreign = next((n for n in ('f0', 'k0', 'f1', 'k1', 'p0') if n not in names), 'f9')
    kwnames = names + ['zz', foreign]
    out = []
    maxpos = npositional + (2 if star else 1)
    ksubsets = []
    for r in range(len(kwnames) + 1):
        for sub in itertools.combinations(kwnames, r):
            ksubsets.append(sub)
    if tier == 'quick' and len(ksubsets) > 16:
        # every subset of size <= 2, plus the full set
        ksubsets = [s for s in ksubsets if len(s) <= 2] + [tuple(kwnames)]
    for npos in range(maxpos + 1):
        for ks in ksubsets:
            slots = npos + len(ks)
            base = [GOOD] * slots
            variants = [tuple(base)]
            for i in range(slots):
                for v in (BAD, NONE):
                    b = list(base)
                    b[i] = v
                    variants.append(tuple(b))
            for vals in variants:
                out.append((vals[:npos], dict(zip(ks, vals[npos:]))))
    return out


def _ann_of(params, star, kw):
    d = {nm: ann for nm, kind, ann, dflt in params}
    return d, star == 'ann', kw == 'ann'


def check_signature(sig, part, tier):
    from beartype import beartype
    from beartype.roar import BeartypeCallHintParamViolation
    params, star, kw = sig
    viol, cov = part['violations'], part['cover']
    sigsrc = source(params, star, kw, True, 'return RET').splitlines()[0]
    for body in ('return RET', 'raise ERR'):
        LOG, TLOG = [], []
        ERR = BodyError('from the body')
        ns = {'LOG': LOG, 'RET': RET, 'ERR': ERR, '__name__': 'bearmc.checks.c04'}
        tns = {'LOG': TLOG, 'RET': RET, 'ERR': ERR}
        sentinels = {}
        for nm, kind, ann, dflt in params:
            if dflt:
                sentinels[nm] = ns[f'D_{nm}'] = tns[f'D_{nm}'] = Sentinel(nm)
        try:
            exec(compile(source(params, star, kw, True, body), '<c04-decorated>', 'exec', dont_inherit=True), ns)
            exec(compile(source(params, star, kw, False, body), '<c04-twin>', 'exec', dont_inherit=True), tns)
            with warnings.catch_warnings():
                warnings.simplefilter('ignore')
                g = beartype(ns['f'])
        except Exception as e:
            viol.append((f'decorate:{type(e).__name__}:{_sigclass(sig)}', f'@beartype raised {type(e).__name__}: {str(e)[:160]} on {sigsrc}', {'sig': sigsrc}))
            return
        twin = tns['f']
        annd, star_ann, kw_ann = _ann_of(params, star, kw)
        shapes = call_shapes(params, star, kw, tier) if body == 'return RET' else call_shapes(params, star, kw, 'quick')[::7]
        for args, kwargs in shapes:
            cov['evaluations'] += 1
            del LOG[:], TLOG[:]
            # --- oracle: CPython binds
            try:
                twin(*args, **kwargs)
                bound = None
            except BodyError:
                bound = None
            except TypeError:
                bound = 'unbindable'
            binding = TLOG[0] if TLOG else None
            if bound != 'unbindable' and binding is None:
                raise AssertionError('twin did not log')
            # --- decorated call
            try:
                res = g(*args, **kwargs)
                outcome = ('returned', res)
            except BeartypeCallHintParamViolation as e:
                outcome = ('violation', e)
            except TypeError as e:
                outcome = ('TypeError', e)
            except BodyError as e:
                outcome = ('body-raised', e)
            except Exception as e:
                outcome = ('other', e)
            ran = len(LOG)
            callsrc = f'f({", ".join([repr(a) for a in args] + [f"{k}={v!r}" for k, v in kwargs.items()])})'
            rep = {'sig': sigsrc, 'call': callsrc, 'body': body,
                   'script': f'from beartype import beartype\nclass S:\n    def __init__(s, n): s.n = n\n' +
                             ''.join(f'D_{nm} = S({nm!r})\n' for nm in sentinels) + 'LOG = []; RET = object(); ERR = Exception("body")\n@beartype\n' +
                             source(params, star, kw, True, body) + f'try: print({callsrc})\nexcept Exception as e: print(type(e).__name__, e)\nprint(LOG)\n'}
            if bound == 'unbindable':
                cov['unbindable'] += 1
                if outcome[0] not in ('TypeError', 'violation') or ran:
                    viol.append((f'unbindable:{outcome[0]}:ran{ran}:{_sigclass(sig)}:{_callclass(args, kwargs, params)}',
                                 f'{callsrc} cannot bind to {sigsrc} (the undecorated twin raises TypeError) but the decorated call {outcome[0]} and the body ran {ran} time(s)', rep))
                continue
            # which passed values are bad?
            bad_params = []
            for nm, v in binding.items():
                if nm == '*':
                    if star_ann and any(not isinstance(i, int) for i in v):
                        bad_params.append('args')
                elif nm == '**':
                    if kw_ann and any(not isinstance(i, int) for i in v.values()):
                        bad_params.append('kwargs')
                        bad_params += [k for k, i in v.items() if not isinstance(i, int)]
                elif annd[nm] and v is not sentinels.get(nm, _NO_DEFAULT) and not isinstance(v, int):
                    bad_params.append(nm)
            if bad_params:
                cov['rejecting'] += 1
                if outcome[0] != 'violation' or ran:
                    viol.append((f'missed-violation:{outcome[0]}:ran{ran}:{_sigclass(sig)}:{_callclass(args, kwargs, params)}',
                                 f'{callsrc} on {sigsrc} passes a non-int to annotated {bad_params} but the decorated call {outcome[0]} and the body ran {ran} time(s)', rep))
                else:
                    msg = str(outcome[1])
                    if not any(f'parameter {b}=' in msg or f'parameter *{b}' in msg or f'parameter **{b}' in msg or f' {b}=' in msg for b in bad_params):
                        viol.append((f'blames-wrong-parameter:{_sigclass(sig)}:{_callclass(args, kwargs, params)}',
                                     f'{callsrc} on {sigsrc}: bad parameters are {bad_params} but the violation says: {msg[:160]!r}', rep))
                continue
            cov['accepting'] += 1
            want = 'returned' if body == 'return RET' else 'body-raised'
            if outcome[0] != want or ran != 1:
                viol.append((f'spurious:{outcome[0]}:ran{ran}:{_sigclass(sig)}:{_callclass(args, kwargs, params)}',
                             f'{callsrc} on {sigsrc} is a valid call (every passed value bound to an annotated parameter is an int) but the decorated call {outcome[0]}'
                             f'{": " + str(outcome[1])[:120] if outcome[0] in ("violation", "TypeError", "other") else ""} and the body ran {ran} time(s)', rep))
                continue
            if (want == 'returned' and outcome[1] is not RET) or (want == 'body-raised' and outcome[1] is not ERR):
                viol.append((f'result-identity:{_sigclass(sig)}', f'{callsrc} on {sigsrc}: result / exception object is not the original\'s', rep))
            seen = LOG[0]
            for nm, v in binding.items():
                sv = seen.get(nm)
                same = sv is v or (nm in ('*', '**') and sv == v and all(a is b for a, b in zip(sv if nm == '*' else sv.values(), v if nm == '*' else v.values()))) or (
                    isinstance(v, Sentinel) and isinstance(sv, Sentinel) and sv.name == v.name)
                if not same:
                    viol.append((f'arguments-changed:{_sigclass(sig)}:{_callclass(args, kwargs, params)}',
                                 f'{callsrc} on {sigsrc}: the body saw {nm} = {sv!r}, the undecorated function sees {v!r}', rep))
                    break
    cov['states'] += 1


def _sigclass(sig):
    params, star, kw = sig
    return ''.join(k + ('A' if a else 'u') + ('d' if d else '') for nm, k, a, d in params) + ('*' + star[0] if star else '') + ('**' + kw[0] if kw else '')


def _callclass(args, kwargs, params):
    vals = list(args) + list(kwargs.values())
    dev = 'bad' if BAD in vals else 'None' if any(v is None for v in vals) else 'good'
    return f'{len(args)}pos+kw({",".join(kwargs)})+{dev}'


def _work(shard):
    part = {'cover': {'evaluations': 0, 'states': 0, 'unbindable': 0, 'rejecting': 0, 'accepting': 0}, 'violations': []}
    for sig in _STATE['sigs'][shard::NSHARDS]:
        check_signature(sig, part, _STATE['tier'])
    return part


def run(ctx):
    sigs = signatures(ctx.tier)
    _STATE.update(sigs=sigs, tier=ctx.tier)
    tot = {}
    for part in ctx.pmap(_work, range(NSHARDS)):
        for k, v in part['cover'].items():
            tot[k] = tot.get(k, 0) + v
        for v in part['violations']:
            ctx.violation(*v)
    ex = sigs[len(sigs) // 2]
    ctx.cover(
        evaluations=tot['evaluations'], states=tot['states'], transitions=tot['evaluations'], traces_validated_against_impl=tot['evaluations'],
        distinct_nontrivial=tot['rejecting'] + tot['unbindable'], signatures=len(sigs), accepting_calls=tot['accepting'],
        rejecting_calls=tot['rejecting'], unbindable_calls=tot['unbindable'], exhaustive=True,
        samples=[{'signature': source(*ex, True, 'return RET').splitlines()[0], 'calls': [str(c) for c in call_shapes(*ex, 'quick')[5:8]]}],
        rule=('E1: every signature with 0-' + ('1' if ctx.quick else '2') + ' positional-only, positional-or-keyword and keyword-only parameters, '
              '*args / **kwargs absent, annotated or unannotated, every annotation mask (representative masks above 3 parameters), every legal '
              'default placement (defaults are unique wrong-typed sentinels); x every call shape: 0..P+1(+1) positional arguments x keyword '
              'subsets of the parameter names plus one surplus name (positional-only names and duplicates included), x value assignments '
              'all-good / one slot a str / one slot None; both a returning and a raising body.  The undecorated twin decides binding.  '
              'states = signatures; distinct_nontrivial = rejecting + unbindable calls.'),
    )
    ctx.assume('CPython binding of the undecorated twin is the reference', 'annotation is int throughout (hint semantics are C01/C02)')


def replay(ctx, case):
    print(case.get('script', case))
