"""C08 -- wrapped coroutines and generators are indistinguishable from the originals.

E1 over (body, kind, return-annotation variant) x every sequence of protocol operations up to a length, executed in
lock step on fresh objects produced by the decorated and by the undecorated function.  Async objects are driven by
hand (no event loop, no clock): an awaitable is resumed with send(None) until it finishes, and a body may suspend on a
harness awaitable, which the driver counts and resumes.
"""
from __future__ import annotations

import gc
import inspect
import itertools
import warnings

PROPERTY = 'C08'
NSHARDS = 64
_STATE = {}


class UserBaseExc(BaseException):
    """A BaseException that is neither an Exception nor GeneratorExit (like KeyboardInterrupt / CancelledError)."""


class Susp:
    """Harness awaitable that suspends exactly once."""
    def __await__(self):
        got = yield 'SUSPENDED'
        return got


# --------------------------------------------------------------------------------------------------------------
# Bodies.  {A} = 'async ' or '', {W} = 'await Susp()\n' line or '', annotations filled in by the generator below.
# --------------------------------------------------------------------------------------------------------------
GEN_BODIES = {
    'plain3': "    log.append('start')\n    yield 1\n    yield 2\n    yield 3\n    log.append('end')\n",
    'empty': "    log.append('start')\n    return\n    yield\n",
    'echo': "    x = yield 'first'\n    log.append(('got', x))\n    y = yield ('echo', x)\n    log.append(('got', y))\n    z = yield ('echo', y)\n    log.append(('got', z))\n",
    'echo_falsy': "    x = yield 'first'\n    while True:\n        log.append(('got', x, type(x).__name__))\n        x = yield (x, x is None)\n",
    'finally': "    try:\n        yield 1\n        yield 2\n    finally:\n        log.append('fin')\n",
    'catch_yield': "    try:\n        yield 1\n    except ValueError as e:\n        log.append(('caught', type(e).__name__))\n        yield 'after-catch'\n    yield 'tail'\n",
    'catch_reraise': "    try:\n        yield 1\n        yield 2\n    except ValueError:\n        log.append('caught')\n        raise\n    finally:\n        log.append('fin')\n",
    'catch_convert': "    try:\n        yield 1\n    except ValueError as e:\n        raise KeyError('converted') from e\n",
    'catch_return': "    try:\n        yield 1\n        yield 2\n    except ValueError:\n        log.append('caught')\n        return{RV}\n    yield 3\n",
    'catch_all': "    while True:\n        try:\n            x = yield 'loop'\n            log.append(('got', x))\n        except GeneratorExit:\n            log.append('exit')\n            raise\n        except BaseException as e:\n            log.append(('caught', type(e).__name__))\n",
    'raise_2': "    yield 1\n    log.append('boom')\n    raise RuntimeError('boom')\n",
    'raise_0': "    raise RuntimeError('at-start')\n    yield 1\n",
    'early_return': "    yield 1\n    if True:\n        log.append('early')\n        return{RV}\n    yield 2\n",
    'nested_finally': "    try:\n        try:\n            yield 1\n        finally:\n            log.append('inner-fin')\n        yield 2\n    finally:\n        log.append('outer-fin')\n",
    'catch_stop': "    try:\n        yield 1\n    except ({STOP}) as e:\n        log.append(('caught-stop', type(e).__name__))\n        yield 'resumed'\n",
}
ASYNC_EXTRA = {
    'susp_between': "    yield 1\n    got = await Susp()\n    log.append(('resumed', got))\n    yield 2\n",
    'susp_first': "    await Susp()\n    x = yield 'first'\n    log.append(('got', x))\n    await Susp()\n    yield ('echo', x)\n",
    'susp_finally': "    try:\n        yield 1\n    finally:\n        await Susp()\n        log.append('fin')\n",
}
CORO_BODIES = {
    'ret_int': "    log.append('start')\n    return 7\n",
    'ret_str_violates': "    return 'not-an-int'\n",
    'susp_ret': "    a = await Susp()\n    log.append(('a', a))\n    b = await Susp()\n    log.append(('b', b))\n    return 7\n",
    'susp_catch': "    try:\n        await Susp()\n    except ValueError:\n        log.append('caught')\n        await Susp()\n        return 8\n    finally:\n        log.append('fin')\n    return 7\n",
    'raise': "    await Susp()\n    raise RuntimeError('boom')\n",
    'susp_bad_ret': "    await Susp()\n    return None\n",
    'catch_base': "    try:\n        await Susp()\n    except GeneratorExit:\n        raise\n    except BaseException as e:\n        log.append(('caught', type(e).__name__))\n        await Susp()\n        raise RuntimeError('after')\n    raise RuntimeError('never-returns')\n",
}

SYNC_OPS = ['next', 'send(1)', 'send(None)', 'send(0)', 'throw(ValueError)', 'throw(StopIteration)', 'throw(GeneratorExit)', 'throw(UserBaseExc)', 'close']
ASYNC_OPS = ['anext', 'asend(1)', 'asend(None)', 'asend(0)', "asend('')", 'athrow(ValueError)', 'athrow(StopAsyncIteration)', 'athrow(GeneratorExit)', 'athrow(UserBaseExc)', 'aclose']
CORO_OPS = ['send(None)', 'send(1)', 'throw(ValueError)', 'throw(UserBaseExc)', 'close']


def programs(tier):
    """[(name, kind, source of `def f(log, p: int) ...`, expects_return_violation)]"""
    out = []
    for name, body in GEN_BODIES.items():
        for ann in ('', ' -> cabc.Generator[object, object, object]', ' -> cabc.Iterator[object]'):
            src = f'def f(log, p: int){ann}:\n' + body.replace('{RV}', " 'ret-value'").replace('{STOP}', 'StopIteration, RuntimeError')
            out.append((f'gen:{name}:{ann.strip() or "unannotated-return"}', 'gen', src))
        for ann in ('', ' -> cabc.AsyncGenerator[object, object]', ' -> cabc.AsyncIterator[object]'):
            src = f'async def f(log, p: int){ann}:\n' + body.replace('{RV}', '').replace('{STOP}', 'StopAsyncIteration, RuntimeError')
            out.append((f'agen:{name}:{ann.strip() or "unannotated-return"}', 'agen', src))
    for name, body in ASYNC_EXTRA.items():
        for ann in ('', ' -> cabc.AsyncGenerator[object, object]'):
            out.append((f'agen:{name}:{ann.strip() or "unannotated-return"}', 'agen', f'async def f(log, p: int){ann}:\n' + body))
    for name, body in CORO_BODIES.items():
        for ann in ('', ' -> int', ' -> object', ' -> typing.NoReturn', ' -> typing.Never', ' -> cabc.Coroutine[None, None, typing.NoReturn]'):
            if 'NoReturn' in ann or 'Never' in ann:
                if name not in ('raise', 'ret_int', 'catch_base', 'susp_ret'):
                    continue
            out.append((f'coro:{name}:{ann.strip() or "unannotated-return"}', 'coro', f'async def f(log, p: int){ann}:\n' + body))
    return out


def drive(awaitable, susp_log):
    """Run an awaitable to completion by hand; returns its value or raises what it raises."""
    it = awaitable.__await__()
    try:
        y = next(it)
        while True:
            susp_log.append(y)
            y = it.send('resume-%d' % len(susp_log))
    except StopIteration as e:
        return e.value


_EXC = {'UserBaseExc': UserBaseExc, 'ValueError': ValueError, 'StopIteration': StopIteration, 'GeneratorExit': GeneratorExit, 'StopAsyncIteration': StopAsyncIteration}


def apply_op(obj, kind, op, susp_log):
    """One protocol operation -> observation (address-free)."""
    try:
        if kind == 'gen':
            if op == 'next':
                r = next(obj)
            elif op.startswith('send('):
                r = obj.send(eval(op[5:-1]))
            elif op.startswith('throw('):
                r = obj.throw(_EXC[op[6:-1]]('thrown'))
            else:
                r = obj.close()
        elif kind == 'agen':
            if op == 'anext':
                r = drive(obj.__anext__(), susp_log)
            elif op.startswith('asend('):
                r = drive(obj.asend(eval(op[6:-1])), susp_log)
            elif op.startswith('athrow('):
                r = drive(obj.athrow(_EXC[op[7:-1]]('thrown')), susp_log)
            else:
                r = drive(obj.aclose(), susp_log)
        else:
            if op.startswith('send('):
                r = obj.send(eval(op[5:-1]))
            elif op.startswith('throw('):
                r = obj.throw(_EXC[op[6:-1]]('thrown'))
            else:
                r = obj.close()
        return ('val', repr(r))
    except StopIteration as e:
        return ('StopIteration', repr(e.value))
    except BaseException as e:
        if isinstance(e, (KeyboardInterrupt, SystemExit)):
            raise
        name = type(e).__name__
        if name.startswith('Beartype'):
            return ('beartype-exc', name)
        return ('exc', name, repr(e.args)[:80], type(e.__cause__).__name__ if e.__cause__ is not None else None)


def run_program(prog, part, maxlen):
    from beartype import beartype
    import collections.abc as cabc
    name, kind, src = prog
    viol, cov = part['violations'], part['cover']
    ns = {'cabc': cabc, 'typing': __import__('typing'), 'Susp': Susp, '__name__': 'bearmc.checks.c08'}
    exec(compile(src, f'<c08:{name}>', 'exec', dont_inherit=True), ns)
    f = ns['f']
    with warnings.catch_warnings():
        warnings.simplefilter('ignore')
        try:
            g = beartype(f)
        except Exception as e:
            viol.append((f'decorate:{name}:{type(e).__name__}', f'@beartype raised {type(e).__name__}: {str(e)[:160]} on\n{src}', {'src': src}))
            return
    if g is f:
        viol.append((f'not-wrapped:{name}', 'harness: function came back undecorated', {'src': src}))
        return
    kinds = (inspect.isgeneratorfunction, inspect.isasyncgenfunction, inspect.iscoroutinefunction)
    if [k(g) for k in kinds] != [k(f) for k in kinds]:
        viol.append((f'kind:{name}', f'inspect reports (generator, asyncgen, coroutine) = {[k(g) for k in kinds]} for the wrapper, {[k(f) for k in kinds]} for the original\n{src}', {'src': src}))
        return
    ops = {'gen': SYNC_OPS, 'agen': ASYNC_OPS, 'coro': CORO_OPS}[kind]
    # a coroutine annotated as never returning violates its annotation whenever it returns
    ret_violation_expected = name in ('coro:ret_str_violates:-> int', 'coro:susp_bad_ret:-> int') or \
        (kind == 'coro' and ('NoReturn' in name or 'Never' in name) and name.split(':')[1] in ('ret_int', 'susp_ret'))
    for n in range(1, maxlen + 1):
        for seq in itertools.product(ops, repeat=n):
            cov['evaluations'] += 1
            logs, susps, objs = ([], []), ([], []), []
            for i, fn in enumerate((f, g)):
                try:
                    objs.append(fn(logs[i], 1))
                except Exception as e:
                    objs.append(e)
            if isinstance(objs[0], Exception) or isinstance(objs[1], Exception):
                if type(objs[0]) is not type(objs[1]):
                    viol.append((f'call:{name}', f'calling the function: {objs[0]!r} vs {objs[1]!r}', {'src': src}))
                break
            bad = None
            trace = []
            for k, op in enumerate(seq):
                o1 = apply_op(objs[0], kind, op, susps[0])
                o2 = apply_op(objs[1], kind, op, susps[1])
                trace.append((op, o1, o2))
                if o1 != o2:
                    if ret_violation_expected and o2[0] == 'beartype-exc' and 'Return' in o2[1] and o1[0] == 'StopIteration':
                        cov['return_violations'] += 1
                        break                                     # the returned value is checked against the annotation
                    bad = f'operation #{k + 1} {op}: original -> {o1}, decorated -> {o2}'
                    break
                if logs[0] != logs[1] or susps[0] != susps[1]:
                    bad = f'after operation #{k + 1} {op}: side-effect logs differ: original {logs[0]} / {susps[0]}, decorated {logs[1]} / {susps[1]}'
                    break
            else:
                if ret_violation_expected and any(o1[0] == 'StopIteration' for op, o1, o2 in trace):
                    bad = f'the coroutine returned a value violating its return annotation and no violation was raised: {trace}'
                # finalisation: drop the last reference and collect
                objs[0] = objs[1] = None
                del objs[:]
                gc.collect()
                if not bad and logs[0] != logs[1]:
                    bad = f'finalisation side effects differ: original {logs[0]}, decorated {logs[1]}'
            if bad:
                viol.append((f'diverges:{name}:{",".join(seq[:len(trace)])}', f'{bad}\n  sequence {list(seq)} on\n{src}',
                             {'src': src, 'sequence': list(seq),
                              'script': 'import collections.abc as cabc, gc, typing\nfrom beartype import beartype\nfrom bearmc.checks.c08 import Susp, apply_op\n' + src +
                                        f'g = beartype(f)\nfor fn in (f, g):\n    log, s = [], []\n    o = fn(log, 1)\n    print([apply_op(o, {kind!r}, op, s) for op in {list(seq)!r}], log, s)\n'}))
                return
            # clean up objects that are still alive (avoid "never awaited" noise)
            for o in objs:
                try:
                    if kind == 'agen':
                        drive(o.aclose(), [])
                    else:
                        o.close()
                except BaseException:
                    pass
    cov['states'] += 1


def wrapped_kind_programs():
    """A functools.wraps wrapper of one kind around a function of another kind: the wrapper's own kind must win."""
    import functools
    out = []

    def inner_sync(log, p: int) -> object:
        return p

    def inner_gen(log, p: int) -> object:
        yield p

    async def inner_coro(log, p: int) -> object:
        return p

    async def inner_agen(log, p: int) -> object:
        yield p
    inners = {'sync': inner_sync, 'gen': inner_gen, 'coro': inner_coro, 'agen': inner_agen}
    for iname, inner in inners.items():
        # isomorphic (*args, **kwargs) wrappers: functools.wraps copies the inner annotations and sets __wrapped__
        @functools.wraps(inner)
        def o_sync(*args, **kwargs):
            return ('outer-sync', args[1])

        @functools.wraps(inner)
        def o_gen(*args, **kwargs):
            yield ('outer-gen', args[1])

        @functools.wraps(inner)
        async def o_coro(*args, **kwargs):
            return ('outer-coro', args[1])

        @functools.wraps(inner)
        async def o_agen(*args, **kwargs):
            yield ('outer-agen', args[1])
        for oname, outer in (('sync', o_sync), ('gen', o_gen), ('coro', o_coro), ('agen', o_agen)):
            if oname != iname:
                out.append((f'{oname}-wrapping-{iname}', oname, outer))
    return out


def check_wrapped_kinds(part):
    from beartype import beartype
    kinds = (inspect.isgeneratorfunction, inspect.isasyncgenfunction, inspect.iscoroutinefunction)
    for name, kind, outer in wrapped_kind_programs():
        part['cover']['evaluations'] += 1
        with warnings.catch_warnings():
            warnings.simplefilter('ignore')
            try:
                g = beartype(outer)
            except Exception as e:
                part['violations'].append((f'wraps-kind:decorate:{name}', f'@beartype on a {name} wrapper raised {type(e).__name__}: {str(e)[:120]}', {}))
                continue
        if [k(g) for k in kinds] != [k(outer) for k in kinds]:
            part['violations'].append((f'wraps-kind:{name}', f'a functools.wraps wrapper of kind {kind} around a function of another kind: inspect reports '
                                       f'{[k(g) for k in kinds]} for the beartype wrapper, {[k(outer) for k in kinds]} for the decorated function', {}))
            continue
        # behaviour: first step equal
        try:
            a, b = outer([], 1), g([], 1)
            if kind == 'sync':
                same = a == b
            elif kind == 'gen':
                same = next(a) == next(b)
            elif kind == 'coro':
                same = apply_op(a, 'coro', 'send(None)', []) == apply_op(b, 'coro', 'send(None)', [])
            else:
                same = apply_op(a, 'agen', 'anext', []) == apply_op(b, 'agen', 'anext', [])
        except Exception as e:
            same = f'raised {type(e).__name__}: {e}'
        if same is not True:
            part['violations'].append((f'wraps-behaviour:{name}', f'{name}: first result differs: {same}', {}))


def _work(shard):
    part = {'cover': {'evaluations': 0, 'states': 0, 'return_violations': 0}, 'violations': []}
    import sys
    sys.unraisablehook = lambda *a: None     # cleanup of half-driven generators is noisy, not an observation
    gc.disable()
    warnings.simplefilter('ignore', RuntimeWarning)       # "coroutine ... was never awaited" for objects dropped mid-sequence
    try:
        for prog in _STATE['progs'][shard::NSHARDS]:
            maxlen = _STATE['maxlen'] if prog[1] != 'coro' else _STATE['maxlen'] + 1
            run_program(prog, part, maxlen)
        if shard == 0:
            check_wrapped_kinds(part)
    finally:
        gc.enable()
    return part


def run(ctx):
    progs = programs(ctx.tier)
    maxlen = 3 if ctx.quick else 4
    _STATE.update(progs=progs, maxlen=maxlen)
    tot = {}
    for part in ctx.pmap(_work, range(NSHARDS)):
        for k, v in part['cover'].items():
            tot[k] = tot.get(k, 0) + v
        for v in part['violations']:
            ctx.violation(*v)
    ctx.cover(
        evaluations=tot['evaluations'], states=tot['states'], transitions=tot['evaluations'], traces_validated_against_impl=tot['evaluations'],
        distinct_nontrivial=len(progs), programs=len(progs), max_sequence_length=maxlen, return_violations_seen=tot['return_violations'],
        exhaustive=True, samples=[progs[10][0], progs[70][0], list(ASYNC_OPS)],
        rule=(f'E1: {len(progs)} programs = {len(GEN_BODIES)} generator bodies (plain, empty, echoing sent values incl. falsy ones, try/finally, '
              'catch-and-yield / re-raise / convert / return, catch-all loop, raising, early return, nested finally, catching the stop exception) as '
              f'sync and async generators + {len(ASYNC_EXTRA)} async bodies suspending on a harness awaitable + {len(CORO_BODIES)} coroutine bodies, each with an '
              f'unannotated and one or two annotated returns; x every sequence of <= {maxlen} (coroutines {maxlen + 1}) protocol operations '
              '(next/send(1)/send(None)/send(0)/throw x3/close and the a* equivalents incl. asend(\'\')) in lock step on fresh objects of the '
              'decorated and the undecorated function: per-operation result or exception (class, args, cause class), side-effect log per object, '
              'suspension log, finalisation after dropping the last reference; inspect kind; 12 functools.wraps wrappers whose kind differs from the '
              'wrapped function.  evaluations = operation sequences; states = programs completed.'),
    )
    ctx.assume('bodies never yield while handling GeneratorExit (excluded by the property)', 'gc is disabled during a sequence; collection is an explicit final step')
    if not tot.get('return_violations'):
        raise AssertionError('vacuous: no return violation observed for the coroutine returning a wrongly typed value')


def replay(ctx, case):
    print(case.get('script') or case)
