"""C19 -- is_subhint is a sound preorder; TypeHint wrappers are coherent.  E1 over pairs / triples.

reflexive on all hints; transitive on ALL triples (closure over the boolean matrix); soundness:
is_subhint(A, B) and A, B not involving Any  =>  every object of the universe with sat_all(A, x) has
sat_all(B, x) (model) and is accepted by is_bearable(x, B) for every draw residue (implementation).
TypeHint coherence: identity, ==/hash/mutual-subhint, len/iter/getitem/contains/args.
"""
from __future__ import annotations

import warnings

from .. import drive, hintenum as HE
from ..model import hintsem as HS, objs as O

PROPERTY = 'C19'
_STATE = {}
A = HE.A


def hint_set(tier):
    i, s, b, o, K, K2, n = A('int'), A('str'), A('bool'), A('object'), A('K'), A('K2'), A('none')
    hs = list(HE.level0(extra=False))
    hs += HE.reps1('all')
    cov = [i, b, s, o, K, K2, ('u', 'U', i, s), ('u', 'O', i), A('any'), A('float'), ('lit', '1'), ('lit', 'True')]
    for f in ('list', 'Sequence', 'abc.Collection', 'Iterable', 'set', 'abc.Set', 'FrozenSet', 'deque', 'abc.MutableSequence',
              'abc.Container', 'Reversible', 'KeysView', 'ValuesView'):
        for c in cov[:8] if tier == 'quick' else cov:
            hs.append(('c1', f, c))
    for f in ('dict', 'Mapping', 'abc.MutableMapping', 'DefaultDict', 'OrderedDict', 'ItemsView'):
        for k, v in ((s, i), (s, b), (s, o), (o, o), (i, s), (s, ('u', 'U', i, s)), (b, i)):
            hs.append(('c2', f, k, v))
    hs += [('tf', 'b'), ('tf', 'b', i), ('tf', 'b', b), ('tf', 'b', i, s), ('tf', 'b', i, s, i), ('tf', 'b', b, s), ('tf', 'b', i, i),
           ('tf', 't', i, s), ('tf', 'b', o, o), ('tf', 'b', s), ('tf', 'b', i, s, i, s), ('tf', 'b', K, K2), ('tf', 'b', K2, K2),
           ('tv', 'b', i), ('tv', 'b', b), ('tv', 'b', o), ('tv', 't', s), ('tv', 'b', ('u', 'U', i, s)), A('tuple_'), A('list_'), A('dict_')]
    hs += [('call', 't', (i,), s), ('call', 't', (s,), s), ('call', 't', (b,), s), ('call', 't', (i,), o), ('call', 't', (i, s), s),
           ('call', 't', '...', s), ('call', 't', '...', o), ('call', 'a', (i,), s), ('call', 't', (), n), ('call', 't', (o,), b)]
    hs += [('u', 'U', b, s), ('u', 'U', i, s, n), ('u', 'U', K2, n), ('u', 'U', ('lit', '1'), ('lit', '2')), ('lit', '1', '2'), ('lit', '2'),
           ('lit', "'a'", "'b'"), ('u', 'U', ('c1', 'list', i), ('c1', 'list', s)), ('u', 'U', ('c1', 'list', b), n),
           ('ann', i, ('is', 'pos'), ('is', 'truthy')), ('ann', b, ('is', 'pos')), ('ann', o, ('is', 'pos')), ('annm', i), ('annm', s),
           ('annm', b), ('ann', ('c1', 'list', i), ('is', 'truthy')), ('ty', 'b', b), ('ty', 'b', K2), ('ty', 'b', o),
           ('g', 'GL', b), ('g', 'G', b), ('g', 'GL', o)]
    seen, out = set(), []
    for t in hs:
        if t in seen:
            continue
        seen.add(t)
        out.append(t)
    return out


def involves_any(t):
    if t[0] == 'a':
        return t[1] == 'any'
    if t[0] == 'lit':
        return False
    if t[0] == 'call':
        return (t[2] != '...' and any(involves_any(p) for p in t[2])) or involves_any(t[3])
    return any(involves_any(m) for m in t[1:] if isinstance(m, tuple) and m and m[0] in
               ('a', 'u', 'lit', 'tf', 'tv', 'c1', 'c2', 'ty', 'ann', 'annm', 'g', 'call'))


_TYPEVARS = {'T', 'TB', 'TC', 'TL', 'TU', 'TSi', 'TSs', 'TF'}


def _mentions(t, pred):
    if t[0] in ('a', 'lit'):
        return pred(t)
    if t[0] == 'call':
        return pred(t) or (t[2] != '...' and any(_mentions(p, pred) for p in t[2])) or _mentions(t[3], pred)
    return pred(t) or any(_mentions(m, pred) for m in t[1:] if isinstance(m, tuple) and m and isinstance(m[0], str) and m[0] in
                          ('a', 'u', 'lit', 'tf', 'tv', 'c1', 'c2', 'ty', 'ann', 'annm', 'g', 'call'))


def _norm(t):
    """term modulo spelling: typing / collections.abc / builtin factories of one class, union spelling and member order"""
    tag = t[0]
    if tag in ('a', 'lit'):
        return ('a', 'NoneType') if t == ('a', 'none') else t
    if tag == 'u':
        ms = [_norm(m) for m in t[2:]] + ([('a', 'NoneType')] if t[1] == 'O' else [])
        flat = []
        for m in ms:
            flat += list(m[1]) if m[0] == 'U' else [m]
        return ('U', tuple(sorted(set(flat), key=repr)))
    if tag in ('tf',):
        return ('tf',) + tuple(_norm(m) for m in t[2:])
    if tag == 'tv':
        return ('tv', _norm(t[2]))
    if tag == 'c1':
        return ('c1', HS.C1[t[1]][1].__name__, HS.C1[t[1]][2], _norm(t[2]))
    if tag == 'c2':
        return ('c2', HS.C2[t[1]][1].__name__, _norm(t[2]), _norm(t[3]))
    if tag == 'ty':
        return ('ty', _norm(t[2]))
    if tag == 'call':
        return ('call', t[2] if t[2] == '...' else tuple(_norm(p) for p in t[2]), _norm(t[3]))
    return t[:1] + tuple(_norm(m) if isinstance(m, tuple) and m and m[0] in ('a', 'u', 'lit', 'tf', 'tv', 'c1', 'c2', 'ty', 'ann', 'annm', 'g', 'call') else m for m in t[1:])


def nested_unionlike(t):
    if t[0] == 'a':
        return t[1] == 'TU'                      # TypeVar bound to a union
    if t[0] == 'u':
        return any((m[0] == 'a' and m[1] in _TYPEVARS) or m[0] == 'u' for m in t[2:])
    return False


def eq_class(ta, tb):
    """Which family of inputs an equal-wrappers-with-different-hashes pair belongs to (known-finding signatures)."""
    if involves_any(ta) or involves_any(tb):
        return 'involves-Any'
    if _norm(ta) == _norm(tb):
        return 'same-hint-different-spelling'
    if _mentions(ta, lambda t: t[0] == 'a' and t[1] in _TYPEVARS) or _mentions(tb, lambda t: t[0] == 'a' and t[1] in _TYPEVARS):
        return 'TypeVar-vs-its-bound'
    return f'other:{HE.shape(ta)}=={HE.shape(tb)}'


def _row(idx):
    """is_subhint(h[idx], h[j]) for all j  -> list of True/False/'E:<class>'"""
    from beartype.door import is_subhint
    hs = _STATE['built']
    a = hs[idx]
    row = []
    with warnings.catch_warnings():
        warnings.simplefilter('ignore')
        for b in hs:
            try:
                r = is_subhint(a, b)
                row.append(r if isinstance(r, bool) else f'E:returned {r!r}')
            except Exception as e:
                row.append('E:' + type(e).__name__)
    return idx, row


def _sound(idx):
    """soundness of row idx against the object universe; returns (idx, n_checked, violations)"""
    from beartype.door import is_bearable
    terms, built, M, univ = _STATE['terms'], _STATE['built'], _STATE['M'], _STATE['univ']
    ta = terms[idx]
    out = []
    n = 0
    if involves_any(ta):
        return idx, 0, out
    xs = [(o, O.mk(o)) for o in univ]
    xs = [(o, x) for o, x in xs if HS.sat_all(ta, x)]
    with warnings.catch_warnings():
        warnings.simplefilter('ignore')
        for j, tb in enumerate(terms):
            if M[idx][j] is not True or j == idx or involves_any(tb):
                continue
            for o, x in xs:
                n += 1
                fresh = o[0] == 'c' and o[1] in ('gen', 'iter')
                if not HS.sat_all(tb, x):
                    out.append((f'unsound:{HE.shape(ta)}<={HE.shape(tb)}',
                                f'is_subhint({HS.src(ta)}, {HS.src(tb)}) is True, yet x = {O.osrc(o)} fully satisfies the first and not the second (reference model)',
                                {'a': ta, 'b': tb, 'oterm': o, 'script': _script(ta, tb, o)}))
                    break
                bad = None
                for r in _STATE['res']:
                    drive.DRAW[0] = r
                    xx = O.mk(o) if fresh else x
                    try:
                        if is_bearable(xx, built[j]) is not True:
                            bad = f'is_bearable rejects it for draw {r}'
                    except Exception as e:
                        bad = f'is_bearable raised {type(e).__name__}'
                    if bad:
                        break
                if bad:
                    out.append((f'unsound-impl:{HE.shape(ta)}<={HE.shape(tb)}',
                                f'is_subhint({HS.src(ta)}, {HS.src(tb)}) is True, x = {O.osrc(o)} fully satisfies the first, but {bad} against the second',
                                {'a': ta, 'b': tb, 'oterm': o, 'script': _script(ta, tb, o)}))
                    break
    return idx, n, out


def _script(ta, tb, o):
    return (drive.PRELUDE + f'''from beartype.door import is_subhint
A, B = {HS.src(ta)}, {HS.src(tb)}
x = {O.osrc(o)}
print('is_subhint(A, B) =', is_subhint(A, B))
print('is_bearable(x, A) =', is_bearable(x, A), ' is_bearable(x, B) =', is_bearable(x, B))
''')


def coherence(terms, built, ctx, cov):
    from beartype.door import TypeHint
    for t, h in zip(terms, built):
        sig = HE.shape(t)
        try:
            with warnings.catch_warnings():
                warnings.simplefilter('ignore')
                th = TypeHint(h)
                th2 = TypeHint(h)
        except Exception as e:
            cov['typehint_errors'] += 1
            ctx.violation(f'typehint-raises:{type(e).__name__}:{sig}', f'TypeHint({HS.src(t)}) raised {type(e).__name__}: {str(e)[:160]}', {'a': t})
            continue
        cov['typehints'] += 1
        try:
            hash(h)
            hashable = True
        except TypeError:
            hashable = False
        if hashable and th is not th2:
            ctx.violation(f'identity:{sig}', f'TypeHint(h) is not TypeHint(h) for hashable h = {HS.src(t)}', {'a': t})
        try:
            kids = list(th)
            args = th.args
            n = len(th)
            ok = n == len(kids) == len(args)
            if not ok:
                sig = ('TypeVar' if t[0] == 'a' and t[1] in _TYPEVARS else 'Literal' if t[0] == 'lit' else
                       'Callable-with-empty-parameter-list' if t[0] == 'call' and t[2] == () else sig)
                ctx.violation(f'len:{sig}', f'len(th)={n}, len(list(th))={len(kids)}, len(th.args)={len(args)} for {HS.src(t)}', {'a': t})
                continue
            for k in range(n):
                ck = th[k]
                if ck is not kids[k] and ck != kids[k]:
                    ctx.violation(f'getitem:{sig}', f'th[{k}] != list(th)[{k}] for {HS.src(t)}', {'a': t})
                want = args[k]
                got = ck.hint
                same = got is want or got == want or (want is None and got is type(None))
                if not same and not isinstance(want, (list, tuple)) and want is not Ellipsis:
                    ctx.violation(f'args:{sig}', f'th[{k}].hint = {got!r} does not wrap th.args[{k}] = {want!r} for {HS.src(t)}', {'a': t})
                if ck not in th:
                    ctx.violation(f'contains:{sig}', f'th[{k}] not in th for {HS.src(t)}', {'a': t})
            cov['children'] += n
        except Exception as e:
            ctx.violation(f'children-raise:{type(e).__name__}:{sig}', f'child access on TypeHint({HS.src(t)}) raised {type(e).__name__}: {str(e)[:160]}', {'a': t})


def run(ctx):
    drive.install_draw()
    from beartype.door import TypeHint
    terms = hint_set(ctx.tier)
    built = [HS.build(t) for t in terms]
    n = len(terms)
    _STATE.update(terms=terms, built=built, res=drive.residues(3, ctx.tier))
    cov = {'typehints': 0, 'typehint_errors': 0, 'children': 0}
    # ---- matrix
    M = [None] * n
    for idx, row in ctx.pmap(_row, range(n), chunksize=4):
        M[idx] = row
    _STATE['M'] = M
    errs = sum(1 for r in M for v in r if isinstance(v, str))
    trues = sum(1 for r in M for v in r if v is True)
    # ---- reflexivity
    for k in range(n):
        if M[k][k] is False:
            ctx.violation(f'reflexive:{HE.shape(terms[k])}', f'is_subhint(h, h) = {M[k][k]} for h = {HS.src(terms[k])}', {'a': terms[k]})
    # ---- transitivity over all triples: for every a<=b, every c with b<=c must have a<=c
    sub = [set(j for j, v in enumerate(r) if v is True) for r in M]
    undecided = [set(j for j, v in enumerate(r) if isinstance(v, str)) for r in M]
    triples = 0
    for a in range(n):
        for b in sub[a]:
            if b == a:
                continue
            missing = sub[b] - sub[a] - undecided[a]
            triples += len(sub[b])
            for c in missing:
                if involves_any(terms[b]):
                    # is_subhint treats Any as both top and bottom (PEP 483 consistency), which cannot be transitive
                    ctx.violation('transitive-via-Any',
                                  f'is_subhint(A, B) and is_subhint(B, C) but not is_subhint(A, C) with the middle hint involving Any: A = {HS.src(terms[a])}, B = {HS.src(terms[b])}, C = {HS.src(terms[c])}',
                                  {'a': terms[a], 'b': terms[b], 'c': terms[c]})
                    continue
                if nested_unionlike(terms[c]):
                    # is_subhint(A, C) is incomplete when C nests a union-like hint (TypeVar with bound/constraints, union)
                    # inside a union-like hint: the inner alternatives are not flattened into C's branches
                    ctx.violation('transitive-incomplete:target-nests-union-like-in-union-like',
                                  f'is_subhint(A, B) and is_subhint(B, C) but not is_subhint(A, C): A = {HS.src(terms[a])}, B = {HS.src(terms[b])}, C = {HS.src(terms[c])}',
                                  {'a': terms[a], 'b': terms[b], 'c': terms[c]})
                    continue
                if terms[a][0] == terms[b][0] == terms[c][0] == 'call':
                    ctx.violation('transitive:callable-parameter-comparison',
                                  f'is_subhint(A, B) and is_subhint(B, C) but not is_subhint(A, C): A = {HS.src(terms[a])}, B = {HS.src(terms[b])}, C = {HS.src(terms[c])}',
                                  {'a': terms[a], 'b': terms[b], 'c': terms[c]})
                    continue
                ctx.violation(f'transitive:{HE.shape(terms[a])}<={HE.shape(terms[b])}<={HE.shape(terms[c])}',
                              f'is_subhint(A, B) and is_subhint(B, C) but not is_subhint(A, C): A = {HS.src(terms[a])}, B = {HS.src(terms[b])}, C = {HS.src(terms[c])}',
                              {'a': terms[a], 'b': terms[b], 'c': terms[c]})
    # ---- soundness
    gen = O.Gen()
    univ, seen = [], set()
    for t in terms:
        ws = gen.wit(t)
        for o in ws[:10] + ws[-4:]:
            if o not in seen:
                seen.add(o)
                univ.append(o)
    for o in O.POOL:
        if o not in seen:
            seen.add(o)
            univ.append(o)
    _STATE['univ'] = univ
    nsound = 0
    for idx, k, out in ctx.pmap(_sound, range(n), chunksize=2):
        nsound += k
        for v in out:
            ctx.violation(*v)
    # ---- TypeHint coherence: ==  =>  equal hash and mutual subhint
    coherence(terms, built, ctx, cov)
    ths = []
    for t, h in zip(terms, built):
        try:
            with warnings.catch_warnings():
                warnings.simplefilter('ignore')
                ths.append(TypeHint(h))
        except Exception:
            ths.append(None)
    eqpairs = eqraise = 0
    for a in range(n):
        if ths[a] is None:
            continue
        for b in range(a + 1, n):
            if ths[b] is None:
                continue
            try:
                eq = ths[a] == ths[b]
            except Exception as e:
                eqraise += 1          # undecided, like a raising is_subhint (foreign exception classes are C11's concern)
                continue
            if eq:
                eqpairs += 1
                if hash(ths[a]) != hash(ths[b]):
                    try:
                        same = built[a] == built[b]
                    except Exception:
                        same = False
                    cls = 'distinct-hints' if not same else 'equal-hints:' + eq_class(terms[a], terms[b])
                    ctx.violation(f'eq-hash:{cls}',
                                  f'TypeHint({HS.src(terms[a])}) == TypeHint({HS.src(terms[b])}) but their hashes differ', {'a': terms[a], 'b': terms[b]})
                if not (M[a][b] is True and M[b][a] is True) and not (isinstance(M[a][b], str) or isinstance(M[b][a], str)):
                    ctx.violation(f'eq-subhint:{HE.shape(terms[a])}=={HE.shape(terms[b])}',
                                  f'TypeHint({HS.src(terms[a])}) == TypeHint({HS.src(terms[b])}) but is_subhint gives {M[a][b]} / {M[b][a]}', {'a': terms[a], 'b': terms[b]})
    ctx.cover(
        evaluations=n * n + nsound, states=n * n, transitions=n * n + triples + nsound, traces_validated_against_impl=n * n + nsound,
        distinct_nontrivial=trues - n, hints=n, pairs=n * n, subhint_true=trues, undecided_pairs=errs, triples_checked=triples,
        soundness_object_checks=nsound, universe_objects=len(univ), typehints=cov['typehints'], children_checked=cov['children'],
        equal_wrapper_pairs=eqpairs, equality_undecided=eqraise, exhaustive=True,
        samples=[{'A': HS.src(terms[5]), 'B': HS.src(terms[n // 2]), 'is_subhint': M[5][n // 2]},
                 {'A': HS.src(terms[n // 3]), 'B': HS.src(terms[n // 3 + 1]), 'is_subhint': M[n // 3][n // 3 + 1]}],
        rule=(f'E1: {n} hint terms (level-0 grammar of C01, container covariance chains, fixed tuples of lengths 0-4, callables, '
              'literals, Annotated, generics, same-named classes / TypeVars); the complete is_subhint matrix (every ordered pair) on the '
              'real code; reflexivity on the diagonal; transitivity on every triple through the closure of the matrix; soundness of every '
              'true pair not involving Any against every universe object that sat_all(A) (model and is_bearable for all draw residues); '
              'TypeHint identity / ==-hash-mutual-subhint / len-iter-getitem-contains-args coherence on every wrapper.  '
              'distinct_nontrivial = true off-diagonal pairs.  Pairs whose is_subhint raises are "undecided" and excluded from the laws.'),
    )
    ctx.assume('Callable hints are satisfied by any callable (beartype checks callability only)',
               'sat_all Literal semantics: type(x) is type(member) and x == member')


def replay(ctx, case):
    drive.install_draw()
    from beartype.door import is_subhint, is_bearable
    a, b = _tt(case['a']), _tt(case.get('b') or case['a'])
    ha, hb = HS.build(a), HS.build(b)
    r = is_subhint(ha, hb)
    if case.get('oterm') is not None:
        x = O.mk(_tt(case['oterm']))
        if r is True and HS.sat_all(a, x) and (not HS.sat_all(b, x) or not is_bearable(x, hb)):
            ctx.violation(f'unsound:{HE.shape(a)}<={HE.shape(b)}', 'reproduced', case)
    elif case.get('c') is not None:
        c = _tt(case['c'])
        if r is True and is_subhint(hb, HS.build(c)) is True and is_subhint(ha, HS.build(c)) is not True:
            ctx.violation(f'transitive:{HE.shape(a)}<={HE.shape(b)}<={HE.shape(c)}', 'reproduced', case)
    elif r is not True and a == b:
        ctx.violation(f'reflexive:{HE.shape(a)}', 'reproduced', case)


def _tt(x):
    if isinstance(x, list):
        return tuple(_tt(i) for i in x)
    return x
