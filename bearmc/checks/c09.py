"""C09 -- call-time checking cost does not grow with container size.

E1 with counting containers (bearmc.spies): for every container-bearing hint shape x filling (conforming, all items
bad, exactly one item bad, a conforming container sitting beside an offender) x entry point x draw, the same check is
run for sizes n in {1, 2, 3, 8, 64, (1024)} at every nesting level and the complete per-level vector of protocol calls
(__getitem__, __iter__, __next__, keys/values/items, __len__, __contains__, __repr__ ...) is recorded.
Oracle: among runs with the same (shape, filling, entry point, draw, verdict) the vector is identical for all n;
is_bearable reads at most one item (one key and its value) per nesting level; iterables that are not collections are
not iterated at all.
"""
from __future__ import annotations

import collections
import collections.abc as cabc
import typing
import warnings

from .. import drive, spies as S

PROPERTY = 'C09'
_STATE = {}

# shape: ('list'|'tuplev'|'seq'|'set'|'fset'|'deque'|'coll'|'absset', child) | ('dict'|'map'|'ddict'|'odict', k, v) |
#        ('tuplef', child, child...) | ('union', child, alt-leaf) | 'int' | 'str'
C1 = {'list': (S.CList, lambda c: typing.List[c]), 'tuplev': (S.CTuple, lambda c: typing.Tuple[c, ...]), 'seq': (S.CSeq, lambda c: cabc.Sequence[c]),
      'set': (S.CSet, lambda c: typing.Set[c]), 'fset': (S.CFrozenSet, lambda c: typing.FrozenSet[c]), 'deque': (S.CDeque, lambda c: typing.Deque[c]),
      'coll': (S.CColl, lambda c: cabc.Collection[c]), 'absset': (S.CAbcSet, lambda c: cabc.Set[c]), 'iterable': (S.CList, lambda c: cabc.Iterable[c]),
      'container': (S.CSeq, lambda c: cabc.Container[c]), 'reversible': (S.CList, lambda c: cabc.Reversible[c]),
      'mseq': (S.CList, lambda c: cabc.MutableSequence[c])}
C2 = {'dict': (S.CDict, lambda k, v: typing.Dict[k, v]), 'map': (S.CMap, lambda k, v: cabc.Mapping[k, v]),
      'ddict': (S.CDefaultDict, lambda k, v: typing.DefaultDict[k, v]), 'odict': (S.COrderedDict, lambda k, v: typing.OrderedDict[k, v])}
def _is_int(x):
    return isinstance(x, int)


def _is_pos(x):
    return isinstance(x, int) and x > 0


def _leaf_validators():
    from beartype.vale import Is, IsEqual
    return {
        # one compound validator (embeds the object twice) over an ignorable base; two validators, the first compound
        'ann2': (typing.Annotated[object, Is[_is_int] & Is[_is_pos]], 7, 's'),
        'ann3': (typing.Annotated[object, IsEqual[7] | Is[_is_pos], Is[_is_int]], 7, 's'),
    }


LEAF = {'int': (int, 7, 's'), 'str': (str, 's', 7), 'optint': (typing.Optional[int], None, 's'), 'obj': (object, 7, 7), 'any': (typing.Any, 's', 's')}      # (hint, conforming, violating); obj / any cannot be violated


def hint_of(sh):
    if isinstance(sh, str):
        return LEAF[sh][0]
    tag = sh[0]
    if tag in C1:
        return C1[tag][1](hint_of(sh[1]))
    if tag in C2:
        return C2[tag][1](hint_of(sh[1]), hint_of(sh[2]))
    if tag == 'tuplef':
        return typing.Tuple[tuple(hint_of(c) for c in sh[1:])]
    if tag == 'opt':
        return typing.Optional[hint_of(sh[1])]
    raise ValueError(sh)


def levels_of(sh):
    """[(label, reads allowed per visit)] for container levels along the first-child path"""
    if isinstance(sh, str):
        return 0
    tag = sh[0]
    if tag in C1:
        return 1 + levels_of(sh[1])
    if tag in C2:
        return 1 + max(levels_of(sh[1]), levels_of(sh[2]))
    if tag == 'tuplef':
        return max(levels_of(c) for c in sh[1:])
    if tag == 'opt':
        return levels_of(sh[1])
    return 0


def mapping_labels(sh, path='L0'):
    """labels (as assigned by build) of the levels that are mappings: one key *and* its value may be read there"""
    if isinstance(sh, str):
        return set()
    tag = sh[0]
    if tag in C1:
        return mapping_labels(sh[1], path + '.i')
    if tag in C2:
        return {path} | mapping_labels(sh[1], path + '.k') | mapping_labels(sh[2], path + '.v')
    if tag == 'tuplef':
        out = set()
        for j, c in enumerate(sh[1:]):
            out |= mapping_labels(c, f'{path}.s{j}')
        return out
    if tag == 'opt':
        return mapping_labels(sh[1], path)
    return set()


def build(sh, n, badness, path='L0', top=True, lvl=0, big=None):
    """Object of shape sh with containers of size n at every level.  badness: None (all good) | 'all' | ('at', i) bad leaf
    in item i of the TOP container only | ('slot', j) bad j-th slot of a fixed tuple (its other slots stay conforming).
    big = nesting level that alone gets size n (every other level gets 3): used for sizes whose power would explode."""
    n_all = n
    if big is not None and lvl != big:
        n = 3
    if isinstance(sh, str):
        typ, good, bad = LEAF[sh]
        return bad if badness == 'all' or badness == 'leafbad' else good
    tag = sh[0]
    if tag in C1:
        cls = C1[tag][0]
        items = []
        for i in range(n):
            b = badness
            if isinstance(badness, tuple) and badness[0] == 'at':
                b = 'leafbad' if i == badness[1] % n and top else None
            elif badness == 'leafbad':
                b = 'leafbad'
            if isinstance(sh[1], str) and sh[1] in LEAF and tag in ('set', 'fset', 'absset'):
                # distinct hashable leaves
                typ, good, bad = LEAF[sh[1]]
                v = (bad if b in ('all', 'leafbad') else good)
                items.append(v + i if isinstance(v, int) else v + str(i))
            else:
                items.append(build(sh[1], n_all, b if b in ('all', 'leafbad', None) else None, path + '.i', False, lvl + 1, big))
        obj = cls(items)
        return S.with_label(obj, path)
    if tag in C2:
        cls = C2[tag][0]
        pairs = []
        for i in range(n):
            b = badness
            if isinstance(badness, tuple) and badness[0] == 'at':
                b = 'leafbad' if i == badness[1] % n and top else None
            kb = None
            k = build(sh[1], n_all, kb, path + '.k', False, lvl + 1, big)
            if isinstance(k, (int, str)):
                k = (k + i) if isinstance(k, int) else k + str(i)
            v = build(sh[2], n_all, b if b in ('all', 'leafbad', None) else None, path + '.v', False, lvl + 1, big)
            pairs.append((k, v))
        if cls is S.CDefaultDict:
            obj = cls(None, pairs)
        else:
            obj = cls(pairs)
        return S.with_label(obj, path)
    if tag == 'tuplef':
        slots = []
        for j, c in enumerate(sh[1:]):
            b = None
            if badness == 'all':
                b = 'all'
            elif isinstance(badness, tuple) and badness[0] == 'slot' and badness[1] == j:
                b = 'leafbad' if isinstance(c, str) else 'all'
            slots.append(build(c, n_all, b, f'{path}.s{j}', False, lvl + 1, big))
        return tuple(slots)
    if tag == 'opt':
        return build(sh[1], n_all, badness, path, top, lvl, big)
    raise ValueError(sh)


def nest(sh):
    if isinstance(sh, str):
        return 0
    if sh[0] == 'opt':
        return nest(sh[1])
    return 1 + max(nest(c) for c in sh[1:])


def shapes(tier):
    out = []
    for f in C1:
        out.append((f, 'int'))
    for f in C2:
        out.append((f, 'str', 'int'))
    for outer in ('list', 'seq', 'tuplev', 'set' if False else 'coll', 'deque', 'iterable'):
        for inner in ('list', 'seq', 'coll', 'deque'):
            out.append((outer, (inner, 'int')))
        out.append((outer, ('dict', 'str', 'int')))
    for m in ('dict', 'map'):
        for inner in ('list', 'seq', 'coll', 'dict'):
            out.append((m, 'str', (inner, 'int') if inner != 'dict' else ('dict', 'str', 'int')))
    out += [('list', ('list', ('list', 'int'))), ('dict', 'str', ('list', ('dict', 'str', 'int'))), ('opt', ('list', 'int')),
            ('list', ('opt', ('list', 'int')))]
    # ignorable key or value hints (the mapping is still one level; explaining a rejection must not materialise it)
    out += [('dict', 'obj', 'int'), ('map', 'any', 'int'), ('dict', 'str', 'obj'), ('dict', 'any', ('list', 'str')), ('list', ('map', 'obj', 'int')),
            ('odict', 'obj', 'int'), ('map', 'obj', ('dict', 'any', 'int')), ('list', 'obj'), ('list', ('opt', ('dict', 'str', 'int'))),
            ('dict', 'str', ('opt', ('list', 'int')))]
    # conforming items that are None (falsy / identity-comparable singletons must not trigger a second read)
    out += [('iterable', 'optint'), ('reversible', 'optint'), ('container', 'optint'), ('list', 'optint'), ('seq', 'optint'), ('list', ('iterable', 'optint')),
            ('dict', 'str', 'optint'), ('tuplev', 'optint'), ('deque', 'optint'), ('coll', 'optint')]
    # validators over an ignorable base as item hints: the item is still read once
    out += [('list', 'ann2'), ('seq', 'ann2'), ('dict', 'str', 'ann2'), ('list', 'ann3'), ('tuplev', 'ann3'), ('iterable', 'ann2'), ('coll', 'ann2')]
    # a conforming container beside an offender
    out += [('tuplef', ('list', 'int'), 'str'), ('tuplef', 'str', ('list', 'int')), ('tuplef', ('dict', 'str', 'int'), 'str'),
            ('tuplef', ('seq', 'int'), ('list', 'str')), ('tuplef', ('list', ('list', 'int')), 'str'), ('tuplef', ('coll', 'int'), 'int', ('deque', 'str')),
            ('dict', ('tuplev', 'int'), 'str'), ('list', ('tuplef', ('list', 'int'), 'str'))]
    return out


def fillings(sh):
    f = [None, 'all', ('at', 0), ('at', 1), ('at', -1)]
    def has_tf(s):
        return not isinstance(s, str) and (s[0] == 'tuplef' or any(has_tf(c) for c in s[1:] if not isinstance(c, str)))
    if not isinstance(sh, str) and sh[0] == 'tuplef':
        f = [None, 'all'] + [('slot', j) for j in range(len(sh) - 1)]
    return f


def vector():
    v = collections.Counter(S.LOG)
    del S.LOG[:]
    return tuple(sorted(v.items()))


def reads_per_level(vec):
    out = collections.Counter()
    for (label, meth), c in vec:
        if meth in ('__getitem__', '__next__'):
            out[label] += c
    return out


ENTRIES = ('is_bearable', 'die_if_unbearable', 'decorated')


def run_shape(idx):
    LEAF.update(_leaf_validators())
    from beartype.door import is_bearable, die_if_unbearable
    from beartype.roar import BeartypeCallHintViolation
    sh = _STATE['shapes'][idx]
    sizes = _STATE['sizes']
    out = {'evaluations': 0, 'groups': 0, 'violations': [], 'vectors': set()}
    with warnings.catch_warnings():
        warnings.simplefilter('ignore')
        h = hint_of(sh)
        maplabels = mapping_labels(sh)
        f = drive.make_param_only(h, _STATE['conf'])
        for fill in fillings(sh):
            for r in (0, 1, 5):
                groups = {}
                # sizes above 64 are applied to one nesting level at a time (n ** depth items otherwise)
                plan = [(n, None) for n in sizes if n <= 64] + [(n, lv) for n in sizes if n > 64 for lv in range(max(1, nest(sh)))]
                for n, big in plan:
                    for entry in ENTRIES:
                        x = build(sh, n, fill, big=big)
                        del S.LOG[:]
                        drive.DRAW[0] = r
                        try:
                            if entry == 'is_bearable':
                                verdict = 'acc' if is_bearable(x, h) else 'rej'
                            elif entry == 'die_if_unbearable':
                                die_if_unbearable(x, h)
                                verdict = 'acc'
                            else:
                                f(x)
                                verdict = 'acc'
                        except BeartypeCallHintViolation:
                            verdict = 'rej'
                        except Exception as e:
                            verdict = 'E:' + type(e).__name__
                        vec = vector()
                        out['evaluations'] += 1
                        out['vectors'].add(vec)
                        # index-dependent fillings: which item is bad relative to the sampled one depends on n; group by verdict
                        groups.setdefault((entry, verdict), []).append((n, vec))
                        if verdict.startswith('E:'):
                            out['violations'].append((f'exception:{verdict}:{sh!r}', f'{entry} raised {verdict} for shape {sh!r}, n = {n}, filling {fill}', {'shape': repr(sh)}))
                        if entry == 'is_bearable':
                            rp = reads_per_level(vec)
                            for label, c in rp.items():
                                # "at most one item, or one key and its value, per container nesting level reached"
                                bound = 2 if label in maplabels else 1
                                if c > bound:
                                    out['violations'].append((f'too-many-reads:is_bearable:{sh!r}', f'is_bearable read {c} items at level {label} (n = {n}, filling {fill}, draw {r}) for shape {sh!r}: {dict(rp)}', {'shape': repr(sh), 'n': n, 'fill': repr(fill)}))
                for (entry, verdict), runs in groups.items():
                    out['groups'] += 1
                    base_n, base = runs[0]
                    for n, vec in runs[1:]:
                        if vec != base:
                            d1, d2 = dict(base), dict(vec)
                            diff = {k: (d1.get(k, 0), d2.get(k, 0)) for k in set(d1) | set(d2) if d1.get(k, 0) != d2.get(k, 0)}
                            out['violations'].append((f'cost-grows:{entry}:{verdict}:{sh!r}:{fill!r}',
                                                      f'{entry} ({verdict}) on shape {sh!r}, filling {fill}, draw {r}: protocol calls differ between n = {base_n} and n = {n}: {{(level, method): (n={base_n}, n={n})}} = {diff}',
                                                      {'shape': repr(sh), 'fill': repr(fill), 'draw': r, 'n': [base_n, n]}))
                            break
    out['vectors'] = len(out['vectors'])
    return out


def noncollections(ctx):
    """Iterables that are not collections are not iterated at all (any size)."""
    from beartype.door import is_bearable, die_if_unbearable
    n_eval = 0
    hints = {'Iterable[int]': cabc.Iterable[int], 'Iterable[str]': cabc.Iterable[str], 'Reversible[int]': cabc.Reversible[int],
             'Container[int]': cabc.Container[int], 'list[Iterable[int]]': typing.List[cabc.Iterable[int]],
             'Iterable[list[int]]': cabc.Iterable[typing.List[int]], 'Optional[Iterable[int]]': typing.Optional[cabc.Iterable[int]]}
    makers = {'OneShot': S.OneShot, 'SizedOneShot': S.SizedOneShot, 'OnlyIterable': S.OnlyIterable, 'OnlyReversible': S.OnlyReversible,
              'OnlyContainer': S.OnlyContainer, 'generator': lambda items: (i for i in items)}
    for hname, h in hints.items():
        f = drive.make_identity(h, _STATE['conf'])
        for mname, mk in makers.items():
            for n in (1, 3, 64):
                for entry in ENTRIES:
                    obj = mk(list(range(n)))
                    x = [obj] if hname.startswith('list[') else obj
                    del S.LOG[:]
                    try:
                        if entry == 'is_bearable':
                            is_bearable(x, h)
                        elif entry == 'die_if_unbearable':
                            die_if_unbearable(x, h)
                        else:
                            f(x)
                    except Exception:
                        pass
                    n_eval += 1
                    bad = [(lab, m) for lab, m in S.LOG if m in ('__iter__', '__next__', '__getitem__', '__reversed__')]
                    del S.LOG[:]
                    if bad:
                        ctx.violation(f'noncollection-iterated:{mname}:{hname}', f'{entry} against {hname} iterated a {mname} of size {n} (not a collection): {bad[:4]}',
                                      {'hint': hname, 'object': mname})
    return n_eval


def run(ctx):
    drive.install_draw()
    from beartype import BeartypeConf
    _STATE.update(shapes=shapes(ctx.tier), sizes=(1, 2, 3, 8, 64) if ctx.quick else (1, 2, 3, 4, 8, 64, 1024), conf=BeartypeConf())
    tot = {'evaluations': 0, 'groups': 0, 'vectors': 0}
    for res in ctx.pmap(run_shape, range(len(_STATE['shapes']))):
        for k in tot:
            tot[k] += res[k]
        for v in res['violations']:
            ctx.violation(*v)
    with warnings.catch_warnings():
        warnings.simplefilter('ignore')
        n2 = noncollections(ctx)
    ctx.cover(
        evaluations=tot['evaluations'] + n2, states=tot['groups'], transitions=tot['evaluations'], traces_validated_against_impl=tot['evaluations'],
        distinct_nontrivial=tot['vectors'], shapes=len(_STATE['shapes']), sizes=list(_STATE['sizes']), groups_compared_across_sizes=tot['groups'],
        noncollection_runs=n2, exhaustive=True,
        samples=[repr(_STATE['shapes'][3]), repr(_STATE['shapes'][20]), repr(_STATE['shapes'][-1])],
        rule=(f'E1: {len(_STATE["shapes"])} container-bearing hint shapes (12 single-argument and 4 mapping families, two- and three-level nestings, '
              'Optional, fixed tuples holding a conforming container beside an offender) built from counting containers at every level x fillings '
              '(conforming, all bad, one bad at first / second / last position, each fixed-tuple slot bad) x 3 draws x 3 entry points x sizes '
              f'{list(_STATE["sizes"])}; the per-level vector of protocol calls must be identical across sizes within each (entry, verdict) group; '
              'is_bearable item reads per level are bounded; 6 kinds of non-collection iterables x 7 hints x sizes are never iterated.  '
              'states = groups compared across sizes; distinct_nontrivial = distinct call vectors observed.'),
    )
    ctx.assume('sizes up to 64 (1024 thorough); constancy beyond is extrapolation', 'the second constant-cost repr() of a rejected root is not treated as growth')


def replay(ctx, case):
    print(case)
