"""C16 -- hooked and unhooked bytecode caches never mix; cached bytecode is never stale.

E4 (runs): every sequence of interpreter runs of length <= 2 (3 thorough) over one scratch source tree, each run with one
of 6 hook configurations (off, default, claw_is_pep526 off, decorator placement FIRST, another violation type, both
non-default), optionally editing the source between runs; child interpreters are started with a scrubbed environment
so that bytecode IS written.  After every run: files carrying beartype's marker contain transformed code and unmarked
files untransformed code (decided by unmarshalling every pyc), and the behaviour of the run equals the behaviour of the
same configuration on an empty cache (differential).
E3 (threads): in one interpreter two loader.get_code calls (hooked || unhooked, hooked || hooked, and a failing hooked
load followed by an unhooked one) are explored under the controlled scheduler with scheduling points on every line of
beartype's loader and of importlib's get_code machinery, all schedules with <= 1 (2) preemptions; same file oracle.
"""
from __future__ import annotations

import itertools
import json
import marshal
import os
import shutil
import subprocess
import sys
import tempfile
import time

from .. import sched

PROPERTY = 'C16'
_STATE = {}
PY = '/venv/bin/python'

MOD_A = '''
def f(x: int) -> int:
    return x
try:
    v: int = 'violates-%(ver)s'
    PEP526 = 'unchecked'
except Exception as e:
    PEP526 = type(e).__name__
def probe():
    try:
        f('s')
        return 'unchecked'
    except Exception as e:
        return type(e).__name__
RESULT = (PEP526, probe(), %(ver)r)
'''
MOD_B = '''
def g(x):
    return x
RESULT = ('plain', g(1), %(ver)r)
'''
CONFS = {
    'off': None,
    'default': 'BeartypeConf()',
    'nopep526': 'BeartypeConf(claw_is_pep526=False)',
    'first': 'BeartypeConf(claw_decor_place_func=BeartypeDecorPlace.FIRST)',
    'exc': 'BeartypeConf(violation_type=ValueError)',
    'nopep526+exc': 'BeartypeConf(claw_is_pep526=False, violation_type=ValueError)',
    'O0': 'BeartypeConf(strategy=BeartypeStrategy.O0)',          # hooked, but nothing is checked
}
RUNNER = '''
import json, sys, warnings
warnings.simplefilter('ignore')
conf = %(conf)s
if conf is not None:
    from beartype import BeartypeConf, BeartypeDecorPlace, BeartypeStrategy
    from beartype.claw import beartype_package
    beartype_package('c16pkg', conf=eval(conf))
import c16pkg.a, c16pkg.b
print(json.dumps([c16pkg.a.RESULT, c16pkg.b.RESULT]))
'''
MARK = 'beartype'
TRANSFORMED_NAMES = {'__beartype__', '__die_if_unbearable_beartype__', '__claw_state_beartype__'}


def write_sources(root, ver, mtime):
    pkg = os.path.join(root, 'c16pkg')
    os.makedirs(pkg, exist_ok=True)
    for name, src in (('__init__.py', ''), ('a.py', MOD_A % {'ver': ver}), ('b.py', MOD_B % {'ver': ver})):
        p = os.path.join(pkg, name)
        with open(p, 'w') as f:
            f.write(src)
        os.utime(p, (mtime, mtime))


def run_child(root, cname):
    repo = os.environ.get('BEARMC_REPO', '/repo')
    env = {'PATH': os.environ.get('PATH', '/usr/bin:/bin'), 'HOME': os.environ.get('HOME', '/root'), 'PYTHONPATH': root + os.pathsep + repo,
           'PYTHONHASHSEED': '0'}          # no PYTHONDONTWRITEBYTECODE: the cache must really be written
    r = subprocess.run([PY, '-c', RUNNER % {'conf': repr(CONFS[cname])}], env=env, cwd=root, capture_output=True, text=True, timeout=120)
    if r.returncode != 0:
        return ('child-failed', r.stderr[-300:])
    return tuple(map(tuple, json.loads(r.stdout.strip().splitlines()[-1])))


def code_is_transformed(code):
    names = set(code.co_names) | set(code.co_varnames)
    if names & TRANSFORMED_NAMES:
        return True
    for c in code.co_consts:
        if isinstance(c, str) and 'beartype.claw._ast' in c:
            return True
        if hasattr(c, 'co_names') and code_is_transformed(c):
            return True
    return 'beartype.claw._ast._clawaststar' in code.co_names or any(isinstance(c, tuple) and '*' in c for c in code.co_consts) and \
        any('clawaststar' in n for n in code.co_names)


def scan_pycache(root, subdirs=('c16pkg',)):
    """[(file name, marked, transformed, module)]"""
    out = []
    for sd in subdirs:
        d = os.path.join(root, sd, '__pycache__')
        if not os.path.isdir(d):
            continue
        for fn in sorted(os.listdir(d)):
            if not fn.endswith('.pyc'):
                continue
            with open(os.path.join(d, fn), 'rb') as f:
                data = f.read()
            try:
                code = marshal.loads(data[16:])
                tr = code_is_transformed(code)
            except Exception as e:
                tr = f'unreadable:{type(e).__name__}'
            mod = fn.split('.')[0]
            out.append((fn, MARK in fn, tr, mod))
    return out


def file_oracle(files, ctx, what, rep, empty_ok=('__init__',)):
    for fn, marked, tr, mod in files:
        if mod in empty_ok:
            continue            # an empty module has nothing to transform
        if marked and tr is not True:
            ctx.violation(f'unhooked-code-in-marked-file:{what}', f'{fn} carries beartype\'s marker but holds untransformed code ({what})', rep)
        if not marked and tr is not False:
            ctx.violation(f'hooked-code-in-unmarked-file:{what}', f'{fn} carries no marker but holds transformed code ({what})', rep)


def _history(hist):
    """One history in its own scratch tree.  hist = ((conf, edit_before?), ...).  Returns [(step, result, files)]"""
    root = tempfile.mkdtemp(prefix='bearmc-c16-')
    try:
        ver, mtime = 1, 1_700_000_000
        write_sources(root, ver, mtime)
        out = []
        for k, (cname, edit) in enumerate(hist):
            if edit:
                ver += 1
                mtime += 1000
                write_sources(root, ver, mtime)
            res = run_child(root, cname)
            out.append((cname, ver, res, scan_pycache(root)))
        return hist, out
    finally:
        shutil.rmtree(root, ignore_errors=True)


def shape_class(c):
    """options that change the *shape* of the transformed AST (compiled into the cached bytecode)"""
    return ('hooked' if c != 'off' else 'off', 'nopep526' in c, c == 'first')


def runs_part(ctx):
    depth = 2 if ctx.quick else 3
    names = list(CONFS)
    hists = []
    for d in range(1, depth + 1):
        for cs in itertools.product(names, repeat=d):
            edits = [(False,) * d] + ([tuple(i == j for i in range(d)) for j in range(1, d)] if d > 1 else [])
            if ctx.quick and d == 2:
                edits = edits[:1] + edits[1:2]
            for ed in edits:
                hists.append(tuple(zip(cs, ed)))
    fresh = {}
    results = list(ctx.pmap(_history, hists))
    for hist, out in results:
        if len(hist) == 1:
            fresh[(hist[0][0], 1)] = out[0][2]
    # fresh behaviour for edited versions: a single run after an edit on an empty cache == fresh run of that version
    need = {(c, v) for hist, out in results for (c, v, r, fl) in out} - set(fresh)
    for cv, r in ctx.pmap(_fresh_version, sorted(need)):
        fresh[tuple(cv)] = r
    n_runs = n_files = 0
    outcomes = set()
    for hist, out in results:
        hs = ' ; '.join(('edit+' if e else '') + c for c, e in hist)
        for k, (cname, ver, res, files) in enumerate(out):
            n_runs += 1
            n_files += len(files)
            outcomes.add(str(res))
            rep = {'history': hs, 'step': k, 'files': [list(map(str, f)) for f in files]}
            if res and res[0] == 'child-failed':
                ctx.violation(f'child-failed:{hs}', f'run {k} of [{hs}] failed: {res[1]}', rep)
                continue
            prev = [c for c, e in hist[:k]]
            file_oracle(files, ctx, f'after runs [{" ; ".join(c for c, e in hist[:k + 1])}]' if False else
                        ('run-sequence:' + '->'.join(sorted({("hooked" if c != "off" else "off") for c, e in hist[:k + 1]}))), rep)
            want = fresh[(cname, ver)]
            if res != want:
                # which earlier run wrote the cache entry that is being reused?  Only runs on the *current* source version
                # count (an edit invalidates older entries): the first hooked one of them wrote the marked file
                same_ver = [c for (c, v, _r, _f) in out[:k] if v == ver and c != 'off']
                stale_from = [c for c in same_ver[:1] if shape_class(c) != shape_class(cname)]
                cls = 'stale-cache-across-AST-shaping-options' if cname != 'off' and stale_from else f'behaviour:{hs}:step{k}'
                ctx.violation(cls, f'run {k} ({cname}) of [{hs}] observed {res}; the same configuration on an empty cache observes {want}', rep)
    return len(hists), n_runs, n_files, outcomes


def _fresh_version(cv):
    c, v = cv
    root = tempfile.mkdtemp(prefix='bearmc-c16f-')
    try:
        write_sources(root, v, 1_700_000_000 + 1000 * (v - 1))
        return cv, run_child(root, c)
    finally:
        shutil.rmtree(root, ignore_errors=True)


# ---- E3: concurrent loads in one interpreter -------------------------------------------------------------------
def threads_part(ctx):
    import importlib._bootstrap_external as BE
    import beartype.claw._importlib._clawimpfileloader as L
    from beartype.claw import beartype_package
    from beartype import BeartypeConf
    from . import c06
    sys.dont_write_bytecode = False
    pristine = c06.snapshot()
    base = tempfile.mkdtemp(prefix='bearmc-c16t-')
    sys.path.insert(0, base)
    inv = {L.__file__: set(range(1, 2000)), BE.__spec__.origin if False else '<frozen importlib._bootstrap_external>': set(range(1, 3000))}
    import beartype.claw._importlib.clawimpcache as CC
    inv[CC.__file__] = set(range(1, 2000))
    counter = itertools.count()
    stats_all = {}
    original_cfs = BE.cache_from_source
    try:
        beartype_package('c16h', conf=BeartypeConf())
        beartype_package('c16h2', conf=BeartypeConf(claw_is_pep526=False))
        scenarios = {
            'hooked || unhooked': [('c16h', 'm', MOD_A), ('c16u', 'm', MOD_A)],
            'hooked || hooked': [('c16h', 'm', MOD_A), ('c16h2', 'm', MOD_A)],
            'unhooked || unhooked': [('c16u', 'm', MOD_A), ('c16u2', 'm', MOD_B)],
            'hooked(syntax error) ; then unhooked': 'sequential',
            # two preemptions, with scheduling points restricted to beartype's own loader (A enters, B enters, A leaves, B leaves)
            'hooked || hooked [2 preemptions at loader lines]': [('c16h', 'm', MOD_A), ('c16h2', 'm', MOD_A)],
        }
        bound = 1 if ctx.quick else 2
        n_exec = 0
        for sname, spec in scenarios.items():
            state = {}

            def make(spec=spec):
                k = next(counter)
                root = os.path.join(base, f'x{k}')
                state['root'] = root
                loaders = []
                pkgs = spec if spec != 'sequential' else [('c16h', 'bad', 'def broken(:\n'), ('c16u', 'm', MOD_A)]
                for pkg, mod, src in pkgs:
                    d = os.path.join(root, pkg)
                    os.makedirs(d, exist_ok=True)
                    p = os.path.join(d, mod + '.py')
                    with open(p, 'w') as f:
                        f.write(src % {'ver': 1} if '%(ver)' in src else src)
                    loaders.append((L.BeartypeSourceFileLoader(f'{pkg}.{mod}', p), f'{pkg}.{mod}'))
                state['pkgs'] = [p for p, m, s in pkgs]

                def body(i):
                    def run():
                        ld, full = loaders[i]
                        try:
                            ld.get_code(full)
                            return 'ok'
                        except SyntaxError:
                            return 'SyntaxError'
                    return run
                if spec == 'sequential':
                    def both():
                        return (body(0)(), body(1)())
                    return [both]
                return [body(0), body(1)]

            def check(s, sname=sname):
                errs = [e for e in s.errors if e is not None]
                rep = {'scenario': sname, 'choices': s.choices}
                if s.fatal is not None and not isinstance(s.fatal, sched.Deadlock):
                    raise AssertionError(f'harness: {s.fatal}')
                if s.fatal is not None:
                    ctx.violation(f'deadlock:{sname}', str(s.fatal), rep)
                if errs:
                    ctx.violation(f'exception:{sname}:{type(errs[0]).__name__}', f'get_code raised {type(errs[0]).__name__}: {str(errs[0])[:160]}', rep)
                files = scan_pycache(state['root'], state['pkgs'])
                rep['files'] = [list(map(str, f)) for f in files]
                pre = [str(lab) for (nopt, run_en, lab), c in zip(s.points, s.choices) if run_en and c != 0][:3]
                for fn, marked, tr, mod in files:
                    if marked and tr is not True:
                        ctx.violation(f'unhooked-code-in-marked-file:threads:{sname}', f'{sname}: {fn} carries the marker but holds untransformed code (preemptions at {pre})', rep)
                    if not marked and tr is not False:
                        ctx.violation(f'hooked-code-in-unmarked-file:threads:{sname.split(" [")[0]}', f'{sname}: {fn} carries no marker but holds transformed code (preemptions at {pre})', rep)
                if BE.cache_from_source is not original_cfs:
                    ctx.violation(f'marker-left-installed:{sname}', f'{sname}: importlib\'s cache_from_source is still beartype\'s marking variant after all loads returned (preemptions at {pre})', rep)
                    BE.cache_from_source = original_cfs
                shutil.rmtree(state['root'], ignore_errors=True)
                return tuple(sorted((m, f[1], f[2]) for f in files for m in [f[3]]))
            deep = sname.endswith('loader lines]')
            st = sched.explore(make, check, {L.__file__: inv[L.__file__]} if deep else inv, bound=2 if deep else bound, max_exec=3000 if ctx.quick else 60000)
            stats_all[sname] = {'executions': st['executions'], 'max_points': st['points_max'], 'capped': st['capped'], 'distinct_outcomes': len(st['distinct_outcomes'])}
            n_exec += st['executions']
        return n_exec, stats_all, bound
    finally:
        BE.cache_from_source = original_cfs
        c06.restore(pristine)
        sys.path.remove(base)
        shutil.rmtree(base, ignore_errors=True)
        sys.dont_write_bytecode = True


def run(ctx):
    n_hist, n_runs, n_files, outcomes = runs_part(ctx)
    if n_files == 0:
        raise AssertionError('vacuous: no pyc file was written by the child interpreters')
    n_exec, tstats, bound = threads_part(ctx)
    ctx.cover(
        evaluations=n_runs + n_exec, states=n_hist, transitions=n_runs, traces_validated_against_impl=n_runs + n_exec,
        distinct_nontrivial=len(outcomes), histories=n_hist, interpreter_runs=n_runs, pyc_files_inspected=n_files, configurations=list(CONFS),
        thread_schedules=n_exec, thread_scenarios=tstats, preemption_bound=bound, exhaustive=not any(v['capped'] for v in tstats.values()),
        samples=[['default', 'edit+nopep526'], ['off', 'default', 'off'], sorted(outcomes)[:3]],
        rule=(f'E4: every sequence of <= {2 if ctx.quick else 3} interpreter runs over 6 hook configurations with an optional source edit between runs, each history in '
              'its own scratch tree with real child interpreters that write bytecode; after every run each pyc is unmarshalled (marker <=> transformed '
              'code) and the run\'s behaviour is compared with the same configuration on an empty cache.  E3: 4 scenarios of loader.get_code calls '
              f'in one interpreter under the controlled scheduler (points on every line of beartype\'s loader / cache modules and of importlib\'s '
              f'_bootstrap_external), all schedules with <= {bound} preemption(s).'),
    )
    ctx.assume('local file system with explicit mtimes; crashes during a pyc write are importlib\'s atomic-rename protocol, not explored')


def replay(ctx, case):
    print(case)
