"""C01 -- no false alarms.  E1: every enumerated hint term x every generated
witness (sat_all) x every draw residue x configuration x entry point must be
accepted.  DESIGN section 5/C01.
"""
from __future__ import annotations

import warnings

from .. import drive, hintenum as HE
from ..model import hintsem as HS, objs as O

PROPERTY = 'C01'
NSHARDS = 96
_STATE = {}


def _setup(tier):
    drive.install_draw()
    _STATE['tier'] = tier
    _STATE['hints'] = HE.hints(tier)
    if tier != 'quick':
        seen = set(_STATE['hints'])
        _STATE['hints'] += [t for t in HE.level2_deep() if t not in seen]        # complete parent x child product at level 2
    _STATE['shards'] = HE.shards(_STATE['hints'], NSHARDS)
    _STATE['confs'] = drive.confs()
    _STATE['res'] = drive.residues(3, tier)


def _script(t, o, r, cname, entry):
    return (drive.PRELUDE + f'''H = {HS.src(t)}
conf = {drive.CONF_SRC[cname]}
x = {O.osrc(o)}
DRAW[0] = {r}
# expected by the reference model: x satisfies H at full depth, so every entry point accepts
print('is_bearable ->', is_bearable(x, H, conf=conf))
die_if_unbearable(x, H, conf=conf)
@beartype(conf=conf)
def f(a: H) -> H: return a
assert f(x) is x
''')


def check_hint(t, cname, conf, gen, res, part, cap=None, seed=0):
    """Run all witnesses of hint term t under one configuration.  Returns nothing; records into part."""
    from beartype.door import is_bearable, die_if_unbearable
    viol = part['violations']
    cov = part['cover']
    ws = gen.wit(t)
    if cap and len(ws) > cap:
        step = -(-len(ws) // cap)
        ws = ws[seed % step::step]
    try:
        h = HS.build(t)
        f = drive.make_identity(h, conf)
    except Exception as e:
        viol.append((f'decorate:{cname}:{type(e).__name__}:{HE.shape(t)}',
                     f'@beartype on (a: H) -> H raised {type(e).__name__}: {str(e)[:200]} for H = {HS.src(t)}',
                     {'hint': HS.src(t), 'term': t, 'conf': cname, 'phase': 'decorate'}))
        return
    DRAW = drive.DRAW
    n = 0
    nontriv = 0
    for o in ws:
        fresh = o[0] == 'c' and o[1] in ('gen', 'iter')
        x = O.mk(o)
        if o[0] in ('c', 'm') and len(o[2]) >= 2:
            nontriv += 1
        for r in res:
            DRAW[0] = r
            for entry in ('is_bearable', 'die_if_unbearable', 'decorated'):
                if fresh:
                    x = O.mk(o)
                n += 1
                try:
                    if entry == 'is_bearable':
                        ok = is_bearable(x, h, conf=conf) is True
                        what = 'returned False'
                    elif entry == 'die_if_unbearable':
                        die_if_unbearable(x, h, conf=conf)
                        ok = True
                    else:
                        ok = f(x) is x
                        what = 'did not return its argument'
                except Exception as e:
                    ok = False
                    what = f'raised {type(e).__name__}: {str(e)[:160]}'
                if not ok:
                    viol.append((f'{entry}:{cname}:{HE.shape(t)}',
                                 f'{entry} {what} for conforming x = {O.osrc(o)}, H = {HS.src(t)}, draw = {r}, conf = {cname}',
                                 {'hint': HS.src(t), 'term': t, 'obj': O.osrc(o), 'oterm': o, 'draw': r, 'conf': cname,
                                  'entry': entry, 'script': _script(t, o, r, cname, entry)}))
                    break
            else:
                continue
            break
    cov['evaluations'] += n
    cov['states'] += len(ws)
    cov['nontrivial'] += nontriv


def _work(shard):
    tier = _STATE['tier']
    hints = _STATE['shards'][shard]
    confs = _STATE['confs']
    res = _STATE['res']
    seed = _STATE.get('seed', 0)
    part = {'cover': {'evaluations': 0, 'states': 0, 'nontrivial': 0, 'hints': 0, 'warnings': 0}, 'violations': []}
    gens = {False: O.Gen(carriers='all'), True: O.Gen(tower=True, carriers='all')}
    cap = 60 if tier == 'quick' else None
    with warnings.catch_warnings(record=True) as rec:
        warnings.simplefilter('always')
        for t in hints:
            part['cover']['hints'] += 1
            for cname, conf in confs.items():
                if tier == 'quick' and cname in ('On', 'warn') and HS.depth(t) >= 2:
                    continue      # these two change no generated check code; deep hints covered under the other three
                check_hint(t, cname, conf, gens[cname == 'tower'], res, part, cap, seed)
            if rec:
                for w in rec:
                    if w.category.__name__ == 'BeartypeDecorHintPep585DeprecationWarning':
                        continue      # documented deprecation notice for typing.X spellings; says nothing about the verdict
                    part['violations'].append((f'warning:{w.category.__name__}:{HE.shape(t)}',
                                               f'warning {w.category.__name__}: {str(w.message)[:200]} while checking conforming objects against {HS.src(t)}',
                                               {'hint': HS.src(t), 'term': t}))
                part['cover']['warnings'] += len(rec)
                del rec[:]
    return part


def run(ctx):
    assert HS.selftest() and O.selftest()
    _setup(ctx.tier)
    _STATE['seed'] = ctx.seed
    hints = _STATE['hints']
    tot = {'evaluations': 0, 'states': 0, 'nontrivial': 0, 'hints': 0, 'warnings': 0}
    for part in ctx.pmap(_work, range(NSHARDS), fresh=True):
        for k in tot:
            tot[k] += part['cover'][k]
        for v in part['violations']:
            ctx.violation(*v)
    g = O.Gen()
    samples = []
    for t in (hints[40], hints[len(hints) // 2], hints[-1]):
        ws = g.wit(t)
        samples.append({'hint': HS.src(t), 'witnesses': len(ws), 'example_object': O.osrc(ws[len(ws) // 2]) if ws else None,
                        'draws': _STATE['res'][:3]})
    ctx.cover(
        evaluations=tot['evaluations'], states=tot['states'], transitions=tot['evaluations'],
        traces_validated_against_impl=tot['evaluations'], distinct_nontrivial=tot['nontrivial'],
        hints=len(hints), configurations=list(_STATE['confs']), draws=_STATE['res'], exhaustive=(ctx.tier == 'thorough'),
        samples=samples,
        rule=('E1 bounded-exhaustive: every hint term of hintenum.hints(tier) x every witness object generated by '
              'objs.Gen.wit (model-checked with sat_all; containers of size <= 3 in every carrier class, every permutation '
              'of 3 child witnesses) x every draw residue mod lcm(1..3) (plus top-of-range draws) x configurations x '
              '{is_bearable, die_if_unbearable, @beartype identity (param+return)}.  states = (hint, conf, object) triples; '
              'transitions = executions of a real entry point; distinct_nontrivial = (hint, conf, object) triples whose '
              'object is a container with >= 2 items, i.e. where the verdict could depend on the draw.  '
              + ('quick: core families, <= 60 witnesses per (hint, conf) chosen by stride (offset rotates with VERIF_SEED).'
                 if ctx.quick else 'thorough: all families / spellings, all witnesses.')),
    )
    ctx.assume('reference semantics hintsem.sat_all is the published meaning of the enumerated hint families',
               'the generated code consults the draw only as r % len(x) (checked by C02/O4 source scan)',
               'objects are re-used across draws and entry points (non-mutation is C10)')


def replay(ctx, case):
    drive.install_draw()
    t = _totuple(case['term'])
    o = _totuple(case['oterm']) if case.get('oterm') else None
    confs = drive.confs()
    part = {'cover': {'evaluations': 0, 'states': 0, 'nontrivial': 0}, 'violations': []}
    gen = O.Gen(tower=case.get('conf') == 'tower')
    if o is not None:
        gen._wit[t] = [o]
    check_hint(t, case.get('conf', 'default'), confs[case.get('conf', 'default')], gen, [case.get('draw', 0)], part)
    for v in part['violations']:
        ctx.violation(*v)


def _totuple(x):
    if isinstance(x, list):
        return tuple(_totuple(i) for i in x)
    return x
