"""C17 -- configurations are memoised, comparable and validated the same way every time.

E2 (fork-snapshot DFS) over creation histories of BeartypeConf(**kw) for an alphabet of valid / invalid / look-alike
keyword sets.  At every node the last operation's observation is compared with (a) the declarative option table
(confspec) and (b) the observation of the same operation at depth 1 (fresh process): validation and memoisation must
not depend on what was created before.  Pairs of results along a history are checked for identity / equality / hash.
"""
from __future__ import annotations

import itertools
import warnings

from .. import snap

PROPERTY = 'C17'
_STATE = {}

# --- confspec: option -> (default source, [valid value sources], [invalid value sources]) --------------------------
PRE = ('from beartype import BeartypeConf, BeartypeStrategy, BeartypeDecorPlace, BeartypeViolationVerbosity, FrozenDict\n')
SPEC = {
    'claw_decor_place_func': ('BeartypeDecorPlace.LAST_BEFORE_DECOR_HOSTILE', ['BeartypeDecorPlace.FIRST', 'BeartypeDecorPlace.LAST'],
                              ["'first'", '1', 'None']),
    'claw_decor_place_type': ('BeartypeDecorPlace.LAST', ['BeartypeDecorPlace.FIRST', 'BeartypeDecorPlace.LAST_BEFORE_DECOR_HOSTILE'], ['2', "'LAST'"]),
    'claw_is_pep526': ('True', ['False'], ['1', '0', "'yes'", 'None']),
    'claw_skip_package_names': ('()', ["('a.b',)", "('a', 'b')"], ["'a.b'", "['a.b']", "('a..b',)", '(1,)', "('',)", '3', "[1]"]),
    'hint_overrides': ('FrozenDict({})', ['FrozenDict({int: float})', 'FrozenDict({str: int | str})'], ['{int: float}', '3', 'None']),
    'is_color': ('None', ['True', 'False'], ['1', '0', "'True'"]),
    'is_debug': ('False', ['True'], ['1', '0', '1.0', "'yes'", 'None']),
    'is_pep484_tower': ('False', ['True'], ['1', '0', '1.0']),
    'is_pep557_fields': ('False', ['True'], ['1', '0']),
    'is_random': ('True', ['False'], ['1', '0', 'None']),
    'strategy': ('BeartypeStrategy.O1', ['BeartypeStrategy.On', 'BeartypeStrategy.O0', 'BeartypeStrategy.Ologn'], ["'O1'", '2', 'None']),
    'violation_door_type': ('None', ['ValueError', 'UserWarning'], ['int', "'ValueError'", "ValueError('x')"]),
    'violation_param_type': ('None', ['KeyError', 'DeprecationWarning'], ['str', '1']),
    'violation_return_type': ('None', ['KeyError'], ['object', '0']),
    'violation_type': ('None', ['TypeError', 'UserWarning'], ['int', "'TypeError'", 'type']),
    'violation_verbosity': ('BeartypeViolationVerbosity.DEFAULT', ['BeartypeViolationVerbosity.MINIMAL', 'BeartypeViolationVerbosity.MAXIMAL'],
                            ['2', '1', "'DEFAULT'", 'None']),
    'warning_cls_on_decorator_exception': (None, ['None', 'UserWarning', 'RuntimeWarning'], ['ValueError', '1', "'UserWarning'"]),
}
CORE = ['is_debug', 'is_random', 'strategy', 'violation_type', 'is_color', 'claw_is_pep526']


def _ns():
    ns = {}
    exec(PRE, ns)
    return ns


def alphabet(tier):
    """[(kwargs source items tuple, expected 'ok' | 'exc')]"""
    ops = [((), 'ok')]
    for opt, (dflt, valid, invalid) in SPEC.items():
        if dflt is not None:
            ops.append((((opt, dflt),), 'ok'))            # explicit default
        for v in valid:
            ops.append((((opt, v),), 'ok'))
        for v in invalid:
            ops.append((((opt, v),), 'exc'))
    # pairs over the core: valid x valid (both keyword orders), valid x invalid
    for a, b in itertools.combinations(CORE, 2):
        va, vb = SPEC[a][1][0], SPEC[b][1][0]
        ops.append((((a, va), (b, vb)), 'ok'))
        ops.append((((b, vb), (a, va)), 'ok'))
        ops.append((((a, va), (b, SPEC[b][2][0])), 'exc'))
        ops.append((((a, SPEC[a][0]), (b, vb)), 'ok'))      # explicit default + valid == single valid
    ops.append(((('is_pep484_tower', 'True'), ('hint_overrides', 'FrozenDict({float: float | int, complex: complex | float | int})')), 'ok'))
    ops.append(((('is_pep484_tower', 'True'), ('hint_overrides', 'FrozenDict({float: str})')), 'exc'))
    # every combination of {absent, equal to the tower, conflicting} for the float and the complex entry under the tower
    for fl in (None, 'float: float | int', 'float: str'):
        for cx in (None, 'complex: complex | float | int', 'complex: str'):
            if fl is None and cx is None:
                continue
            items = ', '.join(x for x in (fl, cx) if x)
            exp = 'exc' if 'str' in items else 'ok'
            op = ((('is_pep484_tower', 'True'), ('hint_overrides', 'FrozenDict({%s})' % items)), exp)
            if op not in ops:
                ops.append(op)
            op2 = ((('hint_overrides', 'FrozenDict({%s})' % items),), 'ok')        # without the tower any override is fine
            if op2 not in ops:
                ops.append(op2)
    ops.append(((('violation_type', 'TypeError'), ('violation_param_type', 'KeyError')), 'ok'))
    ops.append(((('violation_door_type', 'TypeError'), ('violation_param_type', 'TypeError'), ('violation_return_type', 'TypeError')), 'ok'))
    seen, out = set(), []
    for o in ops:
        if o not in seen:
            seen.add(o)
            out.append(o)
    return out


def kw_src(items):
    return 'BeartypeConf(' + ', '.join(f'{k}={v}' for k, v in items) + ')'


def canonical(items, ns):
    """Spec-level normal form of a *valid* keyword set: defaults filled in, values evaluated; two keyword sets denote the
    same configuration iff their normal forms are equal (values compared with type)."""
    d = {}
    for opt, (dflt, _, _) in SPEC.items():
        d[opt] = ('<unpassed>',) if dflt is None else _val(eval(dflt, ns))
    for k, v in items:
        d[k] = _val(eval(v, ns))
    return tuple(sorted(d.items()))


def _val(v):
    try:
        hash(v)
        return (type(v).__name__, v)
    except TypeError:
        return (type(v).__name__, repr(v))


READ = [o for o in SPEC]


def apply(op, hist, ctx):
    """Runs in the forked child: create the configuration, observe."""
    from beartype import BeartypeConf
    from beartype.roar import BeartypeConfParamException
    ns = _STATE['ns']
    items, expect = _STATE['ops'][op]
    kw = {}
    results = dict(ctx or {})
    with warnings.catch_warnings():
        warnings.simplefilter('ignore')
        try:
            kw = {k: eval(v, ns) for k, v in items}
            c = BeartypeConf(**kw)
        except Exception as e:
            return ('exc', type(e).__name__), results
        obs = ['ok']
        # read-back of every option
        rb = []
        for opt in READ:
            try:
                rb.append(repr(getattr(c, opt)))
            except Exception as e:
                rb.append('!' + type(e).__name__)
        obs.append(tuple(rb))
        obs.append(repr(c))
        try:
            c2 = BeartypeConf(**kw)
            obs.append(('again-is', c2 is c, c2 == c, hash(c2) == hash(c)))
        except Exception as e:
            obs.append(('again-raises', type(e).__name__))
        try:
            c3 = BeartypeConf(**dict(reversed(list(kw.items()))))
            obs.append(('reordered-is', c3 is c))
        except Exception as e:
            obs.append(('reordered-raises', type(e).__name__))
        try:
            c4 = BeartypeConf(**c.kwargs)
            obs.append(('roundtrip-is', c4 is c, c4 == c))
        except Exception as e:
            obs.append(('roundtrip-raises', type(e).__name__))
        # relations with configurations created earlier in this history
        rel = []
        for op0, c0 in results.items():
            rel.append((op0, c0 is c, c0 == c, hash(c0) == hash(c)))
        obs.append(tuple(rel))
        results[op] = c
        return tuple(obs), results


def _opts(op):
    return {k for k, _ in _STATE['ops'][op][0]}


def _allowed(prefix):
    """Successor operations of a history.  thorough: every operation.  quick: fork throughput in this sandbox is ~80/s
    machine-wide, so the second operation ranges over the operations that touch an option the first one touched (the
    memo key is the tuple of option values: only a same-slot value can collide) plus a fixed sample of unrelated ones
    (which checks, rather than assumes, that disjoint options do not interact)."""
    n = len(_STATE['ops'])
    if _STATE['tier'] != 'quick':
        # thorough: every pair of operations; a third operation (any) after every pair over a 12-operation core
        # (fork throughput bounds the total: 180^2 + 12^2 * 180 = ~58k process states)
        if len(prefix) == 1:
            return range(n)
        return range(n) if all(p in _STATE['core3'] for p in prefix) else ()
    first = prefix[0]
    fo = _opts(first)
    rel = [i for i in range(n) if (_opts(i) & fo) or (not fo and len(_STATE['ops'][i][0]) == 1 and _STATE['ops'][i][1] == 'exc'
                                                      and _STATE['ops'][i][0][0][1] in ('1', '0', '2', 'None', '1.0'))]
    seed = _STATE['seed']
    unrel = [i for i in range(n) if i not in rel][seed % 7::7]
    return rel + unrel


def _explore(first):
    depth = _STATE['depth']
    # the first operation itself is applied in this (forked, pristine) worker
    o1, ctx = apply(first, (), None)
    out = [((first,), o1)]
    if depth > 1 and (_STATE['tier'] != 'quick' or first in _STATE['quick_firsts']):
        out += snap.dfs(apply, len(_STATE['ops']), depth - 1, (first,), _allowed, ctx)
    elif depth > 1:
        # every operation is at least repeated once: a rejected keyword set must stay rejected, an accepted one memoised
        out += snap.dfs(apply, len(_STATE['ops']), 1, (first,), lambda prefix: [first], ctx)
    return out


def run(ctx):
    assert snap.selftest()
    import beartype  # noqa: F401  (template process imports beartype once; every history forks from here)
    ns = _ns()
    ops = alphabet(ctx.tier)
    depth = 2 if ctx.quick else 3
    core_ops = [i for i, (items, e) in enumerate(ops) if len(items) <= 1 and (not items or items[0][0] in CORE + ['is_pep484_tower', 'hint_overrides'])]
    # quick: histories start with every *accepted* single-option operation and the default (rejected operations are
    # explored as second steps; whether a rejected first step leaves state behind is covered by the thorough tier)
    quick_firsts = {i for i, (items, e) in enumerate(ops) if e == 'ok' and len(items) <= 1}
    quick_firsts |= {i for i, (items, e) in enumerate(ops) if e == 'exc' and len(items) == 1 and items[0][1] in ('1', '0')}
    _STATE.update(ns=ns, ops=ops, depth=depth, core_ops=core_ops, tier=ctx.tier, seed=ctx.seed, quick_firsts=quick_firsts)
    core3 = set(core_ops[::max(1, len(core_ops) // 12)][:12])
    _STATE['core3'] = core3
    firsts = range(len(ops))
    nodes = []
    for part in ctx.pmap(_explore, firsts, fresh=True):
        nodes += part
    canon = {}
    for i, (items, e) in enumerate(ops):
        if e == 'ok':
            canon[i] = canonical(items, ns)
    fresh = {h[0]: o for h, o in nodes if len(h) == 1}
    n_rel = 0
    outcomes = set()
    for hist, obs in nodes:
        op = hist[-1]
        items, expect = ops[op]
        src = kw_src(items)
        hsrc = ' ; '.join(kw_src(ops[i][0]) for i in hist[:-1]) or '<fresh process>'
        outcomes.add(obs[0] if obs[0] == 'ok' else obs)
        rep = {'history': [kw_src(ops[i][0]) for i in hist], 'script': PRE + '\n'.join(
            f'try: print({kw_src(ops[i][0])!r}, "->", repr({kw_src(ops[i][0])}))\nexcept Exception as e: print({kw_src(ops[i][0])!r}, "-> raised", type(e).__name__, e)' for i in hist)}
        sig_hist = 'fresh' if len(hist) == 1 else 'after:' + ';'.join(kw_src(ops[i][0])[13:-1] or 'default' for i in hist[:-1])
        # (a) declarative table
        if expect == 'exc':
            if obs != ('exc', 'BeartypeConfParamException'):
                what = 'was accepted' if obs[0] == 'ok' else f'raised {obs[1]}'
                ctx.violation(f'invalid-not-rejected:{src[13:-1]}:{what.split()[-1]}:{sig_hist if len(hist) > 1 and fresh.get(op) != obs else "any-history"}',
                              f'invalid {src} {what} instead of raising BeartypeConfParamException (history: {hsrc})', rep)
        else:
            if obs[0] != 'ok':
                ctx.violation(f'valid-rejected:{src[13:-1]}:{obs[1]}', f'valid {src} raised {obs[1]} (history: {hsrc})', rep)
                continue
            _, rb, rp, again, reord, rt, rel = obs
            # read back as passed
            for k, v in items:
                want = repr(eval(v, ns))
                if k == 'hint_overrides' and ('is_pep484_tower', 'True') in items:
                    # the documented numeric-tower adjustment: the tower's two entries are merged into the overrides
                    want = repr(eval(f'FrozenDict({{**{v}, float: float | int, complex: complex | float | int}})', ns))
                got = rb[READ.index(k)]
                # documented placeholders: violation_*_type=None means "the default class", which is what reads back
                if got != want and not (k == 'is_color' and v == 'None') and not (k.startswith('violation_') and k.endswith('_type') and v == 'None'):
                    ctx.violation(f'readback:{k}={v}', f'{src}.{k} reads back {got}, passed {want} (history: {hsrc})', rep)
            if again != ('again-is', True, True, True):
                ctx.violation(f'memo:{src[13:-1]}', f'second {src} is not the first: {again} (history: {hsrc})', rep)
            if reord != ('reordered-is', True):
                ctx.violation(f'kw-order:{src[13:-1]}', f'{src} with keywords reversed is another object: {reord} (history: {hsrc})', rep)
            if rt[:2] != ('roundtrip-is', True):
                ctx.violation('roundtrip:BeartypeConf(**conf.kwargs) is not conf', f'BeartypeConf(**c.kwargs) {rt} for c = {src} (history: {hsrc})', rep)
            for op0, same_obj, eq, hsh in rel:
                n_rel += 1
                same_spec = canon.get(op0) == canon[op]
                if same_spec and not same_obj:
                    ctx.violation(f'equal-args-distinct-objects:{src[13:-1]}', f'{kw_src(ops[op0][0])} and {src} denote the same options but are distinct objects (history: {hsrc})', rep)
                if not same_spec and (same_obj or eq):
                    ctx.violation(f'different-args-equal:{kw_src(ops[op0][0])[13:-1]}=={src[13:-1]}', f'{kw_src(ops[op0][0])} and {src} differ but compare {"identical" if same_obj else "equal"} (history: {hsrc})', rep)
                if eq and not hsh:
                    ctx.violation(f'eq-hash:{src[13:-1]}', f'{kw_src(ops[op0][0])} == {src} with different hashes', rep)
        # (b) history independence: same observation as in a fresh process (relations aside)
        if len(hist) > 1:
            f = fresh.get(op)
            a = obs[:-1] if obs[0] == 'ok' else obs
            b = f[:-1] if f and f[0] == 'ok' else f
            if f is not None and a != b:
                ctx.violation(f'history-dependent:{src[13:-1]}:{sig_hist}',
                              f'{src} observed {str(a)[:160]} after [{hsrc}] but {str(b)[:160]} in a fresh process', rep)
    nstates = len({h for h, _ in nodes})
    ctx.cover(
        evaluations=len(nodes), states=nstates, transitions=len(nodes), traces_validated_against_impl=len(nodes),
        distinct_nontrivial=len([1 for h, _ in nodes if len(h) > 1]), operations=len(ops), depth=depth,
        relations_checked=n_rel, distinct_outcomes=sorted(map(str, outcomes))[:12], exhaustive=(ctx.tier == 'thorough'),
        samples=[[kw_src(ops[i][0]) for i in nodes[len(nodes) // 2][0]], [kw_src(ops[i][0]) for i in nodes[-1][0]]],
        rule=(f'E2 fork-snapshot DFS: every history of BeartypeConf creations of length <= {depth} over an alphabet of {len(ops)} keyword '
              'sets (per option: explicit default, valid values, invalid values, equal-but-not-identical look-alikes such as 1 for True; '
              'valid/invalid pairs over a 6-option core in both keyword orders)' + ('' if depth == 2 else '; thorough: every ordered pair of operations, and every third operation after every pair over a 12-operation core') + '.  Each node = one real process state; the last operation is '
              'judged against the option table and against its own observation in a fresh process; every pair of configurations alive '
              'in a history is checked for identity/equality/hash.  distinct_nontrivial = nodes with a non-empty history.  '
              + ('quick: second operations restricted to those sharing an option with the first plus a rotating 1/7 sample of the others '
                 '(process forks cost ~12 ms and do not parallelise in this sandbox); thorough: all pairs.' if ctx.quick else '')),
    )
    ctx.assume('option table SPEC (valid / invalid values per option) is the documented contract',
               'BEARTYPE_IS_COLOR is unset, so is_color reads back as passed')


def replay(ctx, case):
    import subprocess, sys
    print(case.get('script', ''))
