"""C05 -- the import hook preserves program meaning and equals writing the checks by hand.

E1 over generated modules x hook configurations.  Every module is built from a small statement grammar (annotated /
unannotated / unhandled-annotation functions, async functions, classes with members and nested classes, annotated
assignments to names / attributes / subscripts with and without value, conforming and violating values, plain
statements, calls that conform or violate, compound wrappers if/for/while/try/with/match, decorator stacks, optional
docstring and __future__ import) whose every leaf expression is ``t(k, v)`` -- a logging identity -- so that the
evaluation count and order of every original expression is observable.

Three renderings of each module are written to scratch packages and really imported: HOOKED (original source, package
registered with beartype_package), PLAIN (original source, unhooked) and REF (the import-hook rule written out by hand
with the public API: @beartype(conf=...) on every annotated function outside class bodies and on every class,
die_if_unbearable(...) after every valued annotated assignment to a name or attribute outside class bodies).
Oracles: (static) the transformed AST, captured from the real source_to_code path, minus the inserted nodes is
identical -- line/column attributes included -- to the original AST, and the inserted nodes are exactly those of the
rule; (dynamic) HOOKED and REF produce the same event log, the same outcome class and raise at the same statement;
when REF is violation-free HOOKED equals PLAIN; an unhandled annotation yields exactly one BeartypeClawDecorWarning.
"""
from __future__ import annotations

import ast
import importlib
import itertools
import os
import shutil
import sys
import tempfile
import traceback
import warnings

PROPERTY = 'C05'
_STATE = {}

SUPPORT = '''
LOG = []
def t(k, v=None):
    LOG.append(k)
    return v
class O:
    pass
class CM:
    def __enter__(self): LOG.append('enter'); return self
    def __exit__(self, *a): LOG.append('exit'); return False
def d(x):
    # a user decorator that can tell whether it was handed a checking wrapper or the raw definition
    if isinstance(x, int):
        def inner(f):
            LOG.append(('d1', hasattr(f, '__wrapped__')))
            return f
        return inner
    LOG.append(('d', hasattr(x, '__wrapped__')))
    return x
o = O()
dd = {}
'''


# ------------------------------------------------------------------------------------------------------------------
# Statement grammar.  A statement renders to a list of source lines for a variant in {'orig', 'ref'}; `R` is the name of
# the reference decorator, `CHK` of the reference check; `k` allocates fresh log keys.
# ------------------------------------------------------------------------------------------------------------------
class K:
    def __init__(self):
        self.n = 0

    def __call__(self):
        self.n += 1
        return self.n


def deco_lines(existing, variant, place, name):
    """decorator lines for a definition: `existing` user decorators, reference decorator inserted per placement"""
    lines = list(existing)
    if variant == 'ref':
        if place == 'FIRST':
            lines = lines + [f'@{name}']            # nearest the definition = applied first
        else:
            lines = [f'@{name}'] + lines            # top of the stack = applied last
    return lines


def st_func(k, conf, variant, in_class, ann='int', is_async=False, decos=(), name=None, bad_hint=False, static=False, where='first'):
    """where: which part of the signature carries the (only) hint -- first positional parameter (and the return),
    a positional-only / keyword-only / *args / **kwargs parameter alone, or the return alone."""
    name = name or f'f{k()}'
    a = 'a: 3' if bad_hint else (f'a: {ann}' if ann else 'a')
    ret = f' -> {ann}' if ann and not bad_hint else ''
    if where == 'posonly':
        a, ret = f'a: {ann}, /, b=0', ''
    elif where == 'kwonly':
        a, ret = f'a=0, *, b: {ann} = 0', ''
    elif where == 'vararg':
        a, ret = f'a=0, *rest: {ann}', ''
    elif where == 'kwarg':
        a, ret = f'a=0, **rest: {ann}', ''
    elif where == 'return':
        a, ret = 'a=0', f' -> {ann}'
    decorated = bool(ann) and not in_class
    dl = deco_lines(list(decos), variant if decorated else 'orig', conf['place_func'], 'RF')
    if static:
        dl = dl + ['@staticmethod']
        sig = f'({a}){ret}'
    else:
        sig = f'(self, {a}){ret}' if in_class else f'({a}){ret}'
    body = f'    return t({k()}, a)'
    return [*dl, f'{"async " if is_async else ""}def {name}{sig}:', body], name


def render(stmts, conf, variant, k=None, in_class=False, indent=0):
    """stmts: list of statement specs (tuples).  Returns list of (line, stmt_index_path)"""
    k = k or K()
    out = []
    pad = '    ' * indent
    for idx, s in enumerate(stmts):
        kind = s[0]
        lines = []
        if kind == 'func':
            lines, _ = st_func(k, conf, variant, in_class, **s[1])
        elif kind == 'class':
            # ('class', decos, members, nested)
            dl = deco_lines(list(s[1]), variant, conf['place_type'], 'RT')
            lines = [*dl, f'class {s[3] or "C%d" % k()}:']
            body = render(s[2], conf, variant, k, in_class=True, indent=0)
            lines += ['    ' + l for l in body] or ['    pass']
        elif kind == 'ann':
            # ('ann', target kind, has value, good value)
            tk, has_value, good = s[1], s[2], s[3]
            annx = 'int'
            if tk == 'attrside':
                target, tk = f't({k()}, o).a{k()}', 'attr'        # side-effecting base of an attribute target
            elif tk == 'annside':
                target, tk, annx = f'x{k()}', 'name', f't({k()}, int)'   # side-effecting annotation expression
            else:
                target = {'name': f'x{k()}', 'attr': f'o.a{k()}', 'sub': f'dd[t({k()}, 0)]'}[tk]
            if not has_value:
                lines = [f'{target}: {annx}']
            else:
                val = f't({k()}, {1 if good else repr("s")})'
                line = f'{target}: {annx} = {val}'
                if variant == 'ref' and conf['pep526'] and not in_class and tk in ('name', 'attr'):
                    line += f'; CHK({target}, {annx})'
                lines = [line]
        elif kind == 'plain':
            lines = [f't({k()})']
        elif kind == 'call':
            # ('call', function name, good)
            lines = [f'{s[1]}(t({k()}, {1 if s[2] else repr("s")}))']
        elif kind == 'wrap':
            # ('wrap', how, inner statements)
            how = s[1]
            inner = render(s[2], conf, variant, k, in_class, 0)
            head = {'if': [f'if t({k()}, True):'], 'for': [f'for _ in t({k()}, [0]):'], 'while': [f'_w = [0]', f'while t({k()}, _w and _w.pop() == 0):'],
                    'try': ['try:'], 'with': [f'with t({k()}, CM()):'], 'match': [f'match t({k()}, 1):', '    case 1:']}[how]
            extra = '    ' if how == 'match' else ''
            lines = head + [extra + '    ' + l for l in inner]
            if how == 'try':
                lines += ['finally:', f'    t({k()})']
        else:
            raise ValueError(s)
        out += [pad + l for l in lines]
    return out


def module_source(mod, conf, variant):
    """mod = (docstring?, future?, stmts)"""
    doc, fut, stmts = mod
    head = []
    if doc:
        head.append('"""module docstring"""')
    if fut:
        head.append('from __future__ import annotations')
    head.append('from c05support import *')
    if variant == 'ref':
        head[-1] += f'; from c05ref_{conf["name"]} import RF, RT, CHK'
    return '\n'.join(head + render(stmts, conf, variant)) + '\n'


# ------------------------------------------------------------------------------------------------------------------
def statement_alphabet():
    f = lambda **kw: ('func', kw)
    return {
        'F': f(), 'Fu': f(ann=''), 'Fbad': f(bad_hint=True), 'Fpos': f(where='posonly'), 'Fkwo': f(where='kwonly'), 'Fvar': f(where='vararg'), 'Fkwa': f(where='kwarg'), 'Fret': f(where='return'),
        'AF': f(is_async=True), 'AFd': f(is_async=True, decos=('@d',)), 'Fd': f(decos=('@d',)), 'Fdd': f(decos=('@d', '@d(1)')),
        'C': ('class', (), [f(), ('ann', 'name', True, False)], None), 'Cd': ('class', ('@d', '@d(1)'), [f(static=True), f(ann='')], None),
        'Cn': ('class', (), [('class', (), [f()], None), f()], None), 'Cbad': ('class', (), [f(bad_hint=True), f()], None),
        'Aok': ('ann', 'name', True, True), 'Abad': ('ann', 'name', True, False), 'Anov': ('ann', 'name', False, True),
        'Aattr': ('ann', 'attr', True, True), 'Aattrbad': ('ann', 'attr', True, False), 'Asub': ('ann', 'sub', True, True),
        'P': ('plain',), 'Aattrside': ('ann', 'attrside', True, True), 'Aannside': ('ann', 'annside', True, True),
    }


def modules(tier):
    A = statement_alphabet()
    names = list(A)
    mods = []
    # every single statement, with every docstring / __future__ prefix
    for n in names:
        for doc, fut in itertools.product((False, True), repeat=2):
            mods.append((f'{"D" if doc else ""}{"U" if fut else ""}|{n}', (doc, fut, [A[n]])))
    # empty and prefix-only modules
    for doc, fut in itertools.product((False, True), repeat=2):
        mods.append((f'{"D" if doc else ""}{"U" if fut else ""}|<empty>', (doc, fut, [])))
    # all ordered pairs
    for a, b in itertools.product(names, repeat=2):
        mods.append((f'|{a},{b}', (False, False, [A[a], A[b]])))
    # definitions followed by conforming / violating calls (checks really present; siblings of unhandled definitions still checked)
    fkw = lambda name, **kw: ('func', dict(name=name, **kw))
    for defs in (['F'], ['AF'], ['Fd'], ['Fdd'], ['Fbad', 'F'], ['F', 'Fbad'], ['Fpos']):
        stm = []
        fn = None
        for i, dn in enumerate(defs):
            spec = dict(A[dn][1])
            spec['name'] = f'g{i}'
            stm.append(('func', spec))
            if dn != 'Fbad' and dn != 'AF':
                fn = f'g{i}'
        if fn:
            mods.append((f'|{"+".join(defs)},call-ok', (False, False, stm + [('call', fn, True), ('plain',)])))
            mods.append((f'|{"+".join(defs)},call-bad', (True, True, stm + [('plain',), ('call', fn, False), ('plain',)])))
    # classes with an unhandled member before / after / between checked siblings (also static, nested), then a call of a sibling
    def kls(members, name='K0', decos=()):
        return ('class', decos, members, name)
    g = lambda n, **kw: ('func', dict(name=n, **kw))
    for lab, cls, callee in (
            ('bad,g', kls([g('b0', bad_hint=True), g('g1')]), 'K0().g1'), ('g,bad', kls([g('g0'), g('b1', bad_hint=True)]), 'K0().g0'),
            ('bad,static', kls([g('b0', bad_hint=True), g('g1', static=True)]), 'K0.g1'),
            ('g,bad,g', kls([g('g0'), g('b1', bad_hint=True), g('g2')]), 'K0().g2'),
            ('bad,bad,g', kls([g('b0', bad_hint=True), g('b1', bad_hint=True), g('g2')]), 'K0().g2'),
            ('d:bad,g', kls([g('b0', bad_hint=True), g('g1')], decos=('@d',)), 'K0().g1'),
            ('nested:bad,g', kls([kls([g('b0', bad_hint=True), g('g1')], name='Inner')]), 'K0.Inner().g1'),
            ('bad;nested:g', kls([g('b0', bad_hint=True), kls([g('g1')], name='Inner')]), 'K0.Inner().g1'),
            ('nested:bad;g', kls([kls([g('b0', bad_hint=True)], name='Inner'), g('g1')]), 'K0().g1'),
            ('g', kls([g('g0')]), 'K0().g0')):
        mods.append((f'|class({lab}),call-ok', (False, False, [cls, ('call', callee, True), ('plain',)])))
        mods.append((f'|class({lab}),call-bad', (False, True, [cls, ('plain',), ('call', callee, False), ('plain',)])))
    # every statement inside every compound wrapper
    for how in ('if', 'for', 'while', 'try', 'with', 'match'):
        for n in names:
            mods.append((f'|{how}({n})', (False, False, [('wrap', how, [A[n]])])))
        mods.append((f'|{how}({how}(F,Abad))', (False, False, [('wrap', how, [('wrap', how, [A['F'], A['Abad']])])])))
    if tier != 'quick':
        for a, b, c in itertools.product(['F', 'Cn', 'Abad', 'Aattr', 'P', 'Fbad', 'Cd'], repeat=3):
            mods.append((f'|{a},{b},{c}', (True, False, [A[a], A[b], A[c]])))
    return mods


def confs():
    from beartype import BeartypeConf, BeartypeDecorPlace as P
    from .c06 import ExcA
    return [
        dict(name='default', kw={}, place_func='LAST', place_type='LAST', pep526=True),
        dict(name='nopep526', kw=dict(claw_is_pep526=False), place_func='LAST', place_type='LAST', pep526=False),
        dict(name='first', kw=dict(claw_decor_place_func=P.FIRST, claw_decor_place_type=P.FIRST), place_func='FIRST', place_type='FIRST', pep526=True),
        dict(name='lastfirst', kw=dict(claw_decor_place_func=P.LAST, claw_decor_place_type=P.FIRST), place_func='LAST', place_type='FIRST', pep526=True),
        dict(name='firstlast', kw=dict(claw_decor_place_func=P.FIRST, claw_decor_place_type=P.LAST), place_func='FIRST', place_type='LAST', pep526=True),
        dict(name='exc', kw=dict(violation_type=ExcA), place_func='LAST', place_type='LAST', pep526=True),
    ]


# ------------------------------------------------------------------------------------------------------------------
# Static oracle.
# ------------------------------------------------------------------------------------------------------------------
def _is_inserted_deco(d):
    f = d.func if isinstance(d, ast.Call) else d
    return isinstance(f, ast.Name) and f.id == '__beartype__'


def strip_inserted(tree):
    """Remove what the hook inserted; return (stripped tree, description of the insertions)."""
    ins = {'imports': [], 'decorated': [], 'checks': []}

    def walk(body, path, in_class):
        new = []
        for i, node in enumerate(body):
            if isinstance(node, ast.ImportFrom) and node.module and node.module.startswith('beartype.claw._ast'):
                ins['imports'].append((path, len(new)))
                continue
            if isinstance(node, ast.Expr) and isinstance(node.value, ast.Call) and isinstance(node.value.func, ast.Name) and \
                    node.value.func.id == '__die_if_unbearable_beartype__':
                ins['checks'].append((path, len(new) - 1, ast.unparse(node.value.args[0]) if node.value.args else '?'))
                continue
            if isinstance(node, (ast.FunctionDef, ast.AsyncFunctionDef, ast.ClassDef)):
                pos = [j for j, d in enumerate(node.decorator_list) if _is_inserted_deco(d)]
                if pos:
                    n = len(node.decorator_list)
                    where = 'only' if n == 1 else 'top' if pos == [0] else 'bottom' if pos == [n - 1] else f'middle{pos}'
                    ins['decorated'].append((path + (len(new),), type(node).__name__, where, len(pos)))
                    node.decorator_list = [d for d in node.decorator_list if not _is_inserted_deco(d)]
            for field in ('body', 'orelse', 'finalbody'):
                sub = getattr(node, field, None)
                if isinstance(sub, list) and sub and isinstance(sub[0], ast.stmt):
                    setattr(node, field, walk(sub, path + (len(new), field), in_class or isinstance(node, ast.ClassDef)))
            if isinstance(node, ast.Try):
                for h in node.handlers:
                    h.body = walk(h.body, path + (len(new), 'handler'), in_class)
            if isinstance(node, ast.Match):
                for ci, c in enumerate(node.cases):
                    c.body = walk(c.body, path + (len(new), f'case{ci}'), in_class)
            new.append(node)
        return new
    tree.body = walk(tree.body, (), False)
    return tree, ins


def expected_insertions(tree, conf):
    """The rule, stated on the ORIGINAL tree."""
    exp = {'imports': [], 'decorated': [], 'checks': []}
    n_prefix = 0
    for i, node in enumerate(tree.body):
        if i == 0 and isinstance(node, ast.Expr) and isinstance(node.value, ast.Constant) and isinstance(node.value.value, str):
            n_prefix = 1
        elif isinstance(node, ast.ImportFrom) and node.module == '__future__':
            n_prefix = i + 1
        else:
            break
    if len(tree.body) > n_prefix:
        exp['imports'].append(((), n_prefix))

    def annotated(fn):
        a = fn.args
        return fn.returns is not None or any(x.annotation is not None for x in a.posonlyargs + a.args + a.kwonlyargs + [y for y in (a.vararg, a.kwarg) if y])

    def walk(body, path, in_class):
        for i, node in enumerate(body):
            if isinstance(node, ast.ClassDef):
                n = len(node.decorator_list)
                exp['decorated'].append((path + (i,), 'ClassDef', 'only' if n == 0 else 'bottom' if conf['place_type'] == 'FIRST' else 'top', 1))
            elif isinstance(node, (ast.FunctionDef, ast.AsyncFunctionDef)) and not in_class and annotated(node):
                n = len(node.decorator_list)
                exp['decorated'].append((path + (i,), type(node).__name__, 'only' if n == 0 else 'bottom' if conf['place_func'] == 'FIRST' else 'top', 1))
            elif isinstance(node, ast.AnnAssign) and node.value is not None and not in_class and conf['pep526'] and \
                    isinstance(node.target, (ast.Name, ast.Attribute, ast.Subscript)):
                exp['checks'].append((path, i, ast.unparse(node.target)))
            inner_class = in_class or isinstance(node, ast.ClassDef)
            # a function body is a new (non-class) scope
            scope_class = isinstance(node, ast.ClassDef) if isinstance(node, (ast.ClassDef, ast.FunctionDef, ast.AsyncFunctionDef)) else in_class
            for field in ('body', 'orelse', 'finalbody'):
                sub = getattr(node, field, None)
                if isinstance(sub, list) and sub and isinstance(sub[0], ast.stmt):
                    walk(sub, path + (i, field), scope_class)
            if isinstance(node, ast.Try):
                for h in node.handlers:
                    walk(h.body, path + (i, 'handler'), in_class)
            if isinstance(node, ast.Match):
                for ci, c in enumerate(node.cases):
                    walk(c.body, path + (i, f'case{ci}'), in_class)
    walk(tree.body, (), False)
    return exp


# ------------------------------------------------------------------------------------------------------------------
# Dynamic oracle: real imports from scratch packages.
# ------------------------------------------------------------------------------------------------------------------
def import_and_observe(modname, support):
    del support.LOG[:]
    sys.modules.pop(modname, None)
    with warnings.catch_warnings(record=True) as rec:
        warnings.simplefilter('always')
        try:
            m = importlib.import_module(modname)
            outcome = ('ok',)
            glob = sorted(k for k in vars(m) if not k.startswith('__') and k not in ('RF', 'RT', 'CHK'))
            outcome += (tuple(glob),)
        except BaseException as e:
            if isinstance(e, (KeyboardInterrupt, SystemExit)):
                raise
            line = None
            fn = modname.replace('.', os.sep) + '.py'
            for fr in traceback.extract_tb(e.__traceback__):
                if fr.filename.endswith(fn):
                    line = fr.lineno
            kind = type(e).__name__           # the configured violation class is part of the observable behaviour
            outcome = ('raised', kind, line)
    ws = sorted(w.category.__name__ for w in rec if 'Pep585' not in w.category.__name__)
    return outcome, list(support.LOG), ws


def run(ctx):
    from beartype import beartype, BeartypeConf
    from beartype.door import die_if_unbearable
    from beartype.claw import beartype_package
    import beartype.claw._importlib._clawimpfileloader as L
    from . import c06
    mods = modules(ctx.tier)
    CONFS = confs()
    pristine = c06.snapshot()
    root = tempfile.mkdtemp(prefix='bearmc-c05-')
    sys.path.insert(0, root)
    sys.dont_write_bytecode = True
    captured = {}
    real_compile = compile

    def spy_compile(source, filename, mode, *a, **kw):
        if isinstance(source, ast.AST) and root in str(filename):
            captured[str(filename)] = source
        return real_compile(source, filename, mode, *a, **kw)
    L.compile = spy_compile
    n_eval = n_static = n_dyn = 0
    outcomes = set()
    try:
        with open(os.path.join(root, 'c05support.py'), 'w') as f:
            f.write(SUPPORT)
        support = importlib.import_module('c05support')
        for conf in CONFS:
            bc = BeartypeConf(**conf['kw'])
            with open(os.path.join(root, f'c05ref_{conf["name"]}.py'), 'w') as f:
                f.write('from beartype import beartype, BeartypeConf\nfrom beartype.door import die_if_unbearable\n'
                        'import sys\nconf = sys.modules["bearmc.checks.c05"]._STATE["bc"][%r]\nRF = RT = beartype(conf=conf)\n'
                        'def CHK(obj, hint):\n    die_if_unbearable(obj, hint, conf=conf)\n' % conf['name'])
            from beartype.roar import BeartypeClawDecorWarning
            # written by hand, the hook's "leave an undecoratable definition unchecked with a warning" is the public option below
            _STATE.setdefault('bc', {})[conf['name']] = BeartypeConf(warning_cls_on_decorator_exception=BeartypeClawDecorWarning, **conf['kw'])
            _STATE.setdefault('bc_hook', {})[conf['name']] = bc
            for variant in ('hooked', 'plain', 'ref'):
                pkg = os.path.join(root, f'c05_{variant}_{conf["name"]}')
                os.makedirs(pkg)
                open(os.path.join(pkg, '__init__.py'), 'w').close()
                for i, (label, mod) in enumerate(mods):
                    with open(os.path.join(pkg, f'm{i}.py'), 'w') as f:
                        f.write(module_source(mod, conf, 'ref' if variant == 'ref' else 'orig'))
            beartype_package(f'c05_hooked_{conf["name"]}', conf=bc)
        importlib.invalidate_caches()
        for conf in CONFS:
            for i, (label, mod) in enumerate(mods):
                src = module_source(mod, conf, 'orig')
                sig = f'{label}:{conf["name"]}'
                rep = {'module': label, 'conf': conf['name'], 'source': src, 'reference_source': module_source(mod, conf, 'ref')}
                captured.clear()
                oh, lh, wh = import_and_observe(f'c05_hooked_{conf["name"]}.m{i}', support)
                orf, lr, wr = import_and_observe(f'c05_ref_{conf["name"]}.m{i}', support)
                op, lp, wp = import_and_observe(f'c05_plain_{conf["name"]}.m{i}', support)
                n_eval += 3
                n_dyn += 1
                outcomes.add((oh[0], oh[1] if oh[0] == 'raised' else '', tuple(wh)))
                # ---- static
                tree_t = next((v for k, v in captured.items() if k.endswith(os.sep + f'm{i}.py')), None)
                if tree_t is None:
                    ctx.violation(f'not-transformed:{sig}', f'the hooked import of {label} did not go through source_to_code with a transformed AST', rep)
                else:
                    n_static += 1
                    orig = ast.parse(src)
                    try:
                        real_compile(tree_t, '<c05>', 'exec')
                    except Exception as e:
                        ctx.violation(f'transformed-does-not-compile:{sig}', f'{type(e).__name__}: {e}', rep)
                    import copy
                    stripped, ins = strip_inserted(copy.deepcopy(tree_t))
                    if ast.dump(stripped, include_attributes=True) != ast.dump(orig, include_attributes=True):
                        ctx.violation(f'ast-changed:{sig}', f'apart from the inserted import / decorators / checks the transformed AST differs from the original (attributes included) for\n{src}', rep)
                    exp = expected_insertions(orig, conf)
                    if ins != exp:
                        diff = {k: (ins[k], exp[k]) for k in ins if ins[k] != exp[k]}
                        missing = [c for c in exp['checks'] if c not in ins['checks']]
                        only_subscripts = set(diff) == {'checks'} and all(c in exp['checks'] for c in ins['checks']) and all('[' in c[2] for c in missing)
                        ctx.violation('insertions:checks:annotated-assignment-to-subscript-target-not-checked' if only_subscripts else f'insertions:{",".join(sorted(diff))}:{sig}', f'inserted nodes differ from the rule: {{kind: (inserted, expected)}} = {diff} for\n{src}', rep)
                # ---- dynamic: hooked == hand-written
                # map the raising line to a statement-independent coordinate: the value of the log at the time identifies it
                if (oh[0], oh[1] if oh[0] == 'raised' else oh[1]) != (orf[0], orf[1] if orf[0] == 'raised' else orf[1]) or lh != lr:
                    ctx.violation(f'hooked-vs-handwritten:{sig}', f'hooked import: {oh}, events {lh}; hand-written checks: {orf}, events {lr}; warnings {wh} / {wr}\n{src}', rep)
                elif oh[0] == 'raised' and oh[2] is not None and orf[2] is not None:
                    # same events => same offending statement; additionally the hooked traceback line must be the original line of that statement
                    ref_lines = module_source(mod, conf, 'ref').splitlines()
                    orig_lines = src.splitlines()
                    stmt_ref = ref_lines[orf[2] - 1].split(';')[0].strip()
                    stmt_orig = orig_lines[oh[2] - 1].strip() if oh[2] - 1 < len(orig_lines) else '<beyond>'
                    if stmt_ref != stmt_orig:
                        ctx.violation(f'traceback-line:{sig}', f'the violation is reported at line {oh[2]} ({stmt_orig!r}); the offending statement is {stmt_ref!r}\n{src}', rep)
                # ---- the rule itself for modules that end in a call of a checked definition
                if label.endswith(',call-bad') or label.endswith(',call-ok'):
                    call_line = next(n for n, l in enumerate(src.splitlines(), 1) if l.startswith(('g', 'K0')) and '(t(' in l)
                    vio = 'ExcA' if conf['name'] == 'exc' else 'BeartypeCallHintParamViolation'
                    want = ('raised', vio, call_line) if label.endswith(',call-bad') else ('ok',)
                    if oh[:len(want)] != want:
                        ctx.violation(f'checked-definition:{sig}', f'hooked import ended {oh}; by the rule the call on line {call_line} of a checked definition ends {want}\n{src}', rep)
                # a user decorator may see a wrapper instead of the raw definition; that is not a change of program meaning
                norm = lambda log: [e[0] if isinstance(e, tuple) else e for e in log]
                lh, lp = norm(lh), norm(lp)
                if orf[0] == 'ok' and (oh != op or lh != lp):
                    import collections as _c
                    extra = _c.Counter(lh) - _c.Counter(lp)
                    dup_only = oh == op and not (_c.Counter(lp) - _c.Counter(lh)) and all(v == 1 for v in extra.values()) and \
                        ('Aattrside' in label or 'Aannside' in label) and conf['pep526']
                    ctx.violation('hooked-vs-unhooked:annotated-assignment-target-base-or-annotation-evaluated-twice' if dup_only else f'hooked-vs-unhooked:{sig}', f'nothing violates, yet hooked import: {oh}, events {lh}; unhooked: {op}, events {lp}\n{src}', rep)
                # ---- unhandled hints
                n_bad = src.count('a: 3')
                n_warn = wh.count('BeartypeClawDecorWarning')
                # (a definition in a nested class is visited once per enclosing decorated class: at least one warning each, none otherwise)
                if (n_warn < n_bad or (n_bad == 0 and n_warn) or (n_warn != n_bad and 'nested' not in label and '|Cn' not in label)) and oh[0] == 'ok':
                    ctx.violation(f'decor-warnings:{n_warn}-for-{n_bad}:{sig}', f'{n_bad} definition(s) with an unhandled annotation, {n_warn} BeartypeClawDecorWarning(s): {wh}\n{src}', rep)
                other = [w for w in wh if w != 'BeartypeClawDecorWarning']
                if other != [w for w in wr if w != 'BeartypeClawDecorWarning']:
                    ctx.violation(f'warnings:{sig}', f'hooked import warned {wh}, hand-written {wr}', rep)
        # ---- history: the same module names re-imported under another configuration in the same process
        # (only the package registry is reset, so that the same package names can be registered again; whatever the hook
        # remembers per module stays as the first imports left it)
        c06.restore(pristine, keep_module_confs=True)
        rot = CONFS[1:] + CONFS[:1]
        for conf, newconf in zip(CONFS, rot):
            beartype_package(f'c05_hooked_{conf["name"]}', conf=_STATE['bc_hook'][newconf['name']])
        importlib.invalidate_caches()
        n_re = 0
        for conf, newconf in zip(CONFS, rot):
            for i, (label, mod) in enumerate(mods):
                if ',call-bad' not in label and '|Abad' not in label and 'Aattrbad' not in label:
                    continue
                # source files are per old conf, but 'orig' rendering does not depend on conf
                oh, lh, wh = import_and_observe(f'c05_hooked_{conf["name"]}.m{i}', support)
                orf, lr, wr = import_and_observe(f'c05_ref_{newconf["name"]}.m{i}', support)
                n_re += 1
                n_eval += 2
                if (oh[0], oh[1] if oh[0] == 'raised' else '') != (orf[0], orf[1] if orf[0] == 'raised' else '') or lh != lr:
                    ctx.violation(f'reimport-under-new-conf:{label}:{conf["name"]}->{newconf["name"]}',
                                  f'module re-imported after its package was re-registered with configuration {newconf["name"]}: hooked {oh} {lh}; hand-written for the new configuration {orf} {lr}',
                                  {'module': label, 'conf': newconf['name'], 'source': module_source(mod, newconf, 'orig')})
    finally:
        L.compile = real_compile
        try:
            del L.compile
        except Exception:
            pass
        c06.restore(pristine)
        sys.path.remove(root)
        for name in [n for n in sys.modules if n.startswith(('c05_', 'c05support', 'c05ref_'))]:
            del sys.modules[name]
        shutil.rmtree(root, ignore_errors=True)
    ctx.cover(
        evaluations=n_eval, states=len(mods) * len(CONFS), transitions=n_eval, traces_validated_against_impl=n_dyn, programs=len(mods) * len(CONFS),
        disagreements_checked=n_static, distinct_nontrivial=len(outcomes), modules=len(mods), configurations=[c['name'] for c in CONFS],
        static_ast_comparisons=n_static, reimports_under_another_configuration=n_re, distinct_outcomes=sorted(map(str, outcomes))[:12], exhaustive=True,
        samples=[module_source(mods[40][1], CONFS[0], 'orig'), module_source(mods[-3][1], CONFS[2], 'ref')],
        rule=(f'E1: {len(mods)} generated modules ({len(statement_alphabet())} statement kinds alone under all docstring/__future__ prefixes, all ordered pairs, definitions '
              'followed by conforming / violating calls incl. siblings of unhandled definitions at module level and in (nested, decorated) classes, judged by the rule itself, every statement inside each of 6 compound wrappers, '
              f'nested wrappers{"" if ctx.quick else ", triples over a 7-kind core"}) x {len(CONFS)} hook configurations (default, claw_is_pep526 off, decorator '
              'placements FIRST / LAST for functions and classes, non-default violation type); each really imported three ways from scratch packages '
              '(hooked, unhooked, checks written by hand), AST captured from the real source_to_code; then the violating modules are re-imported '
              'after re-registering their packages under another configuration.'),
    )
    ctx.assume('decorator-hostile third-party decorators (celery, typer ...) are not installed and not in the alphabet: LAST_BEFORE_DECOR_HOSTILE is exercised only where it coincides with LAST')


def replay(ctx, case):
    print(case.get('source'))
    print('--- reference'); print(case.get('reference_source'))
