"""C18 -- hint-rewriting options behave exactly like rewriting the hints by hand (metamorphic, E1).

For every hint term H over {float, complex, K, str, NewType/TypeVar over float, ...}, every rewriting
configuration c and every (object, draw residue):
      run(H, conf=c)  ==  run(rewrite_c(H), default conf)
on the boolean path, the raising path (raise / no raise, culprits) and the decorated param / return path.
Also: the violation_* family changes only the class of the signal, never the verdict.
Both orders of the configuration list are explored in separate processes (history: a decision taken
for a hint under one configuration must not leak into another configuration).
"""
from __future__ import annotations

import warnings

from .. import drive, hintenum as HE
from ..model import hintsem as HS, objs as O

import re
_ADDR = re.compile(r'0x[0-9a-fA-F]+')
PROPERTY = 'C18'
NSHARDS = 96
_STATE = {}
A = HE.A
V = O.V


def rules_table():
    fl, cx, i, s = A('float'), A('complex'), A('int'), A('str')
    K, Ot = A('K'), A('Other')
    tower = {'float': ('u', 'B', fl, i), 'complex': ('u', 'U', cx, fl, i), 'NF': ('u', 'B', fl, i), 'TF': ('u', 'B', fl, i)}
    return {
        'tower': (dict(is_pep484_tower=True), {}, tower),
        'K->Other': ({}, {'K': Ot}, {'K': Ot}),
        'tower+K->Other': (dict(is_pep484_tower=True), {'K': Ot}, dict(tower, K=Ot)),
        'K->K|Other': ({}, {'K': ('u', 'B', K, Ot)}, {'K': ('u', 'B', K, Ot)}),
        'K->object': ({}, {'K': A('object')}, {'K': A('object')}),
        'K->int': ({}, {'K': i}, {'K': i}),
        'str->str|bytes': ({}, {'str': ('u', 'B', s, A('bytes'))}, {'str': ('u', 'B', s, A('bytes'))}),
        'K->list[int]': ({}, {'K': ('c1', 'list', i)}, {'K': ('c1', 'list', i)}),
        'float->float|None': ({}, {'float': ('u', 'U', fl, A('none'))},
                              {'float': ('u', 'U', fl, A('none')), 'NF': ('u', 'U', fl, A('none')), 'TF': ('u', 'U', fl, A('none'))}),
    }


def make_conf(kw, ov):
    from beartype import BeartypeConf, FrozenDict
    kw = dict(kw)
    if ov:
        kw['hint_overrides'] = FrozenDict({HS.build(A(k)): HS.build(v) for k, v in ov.items()})
    return BeartypeConf(**kw)


def rewrite(t, rules):
    tag = t[0]
    if tag == 'a':
        return rules.get(t[1], t)
    if tag == 'lit':
        return t
    if tag == 'u':
        return t[:2] + tuple(rewrite(m, rules) for m in t[2:])
    if tag in ('tf',):
        return t[:2] + tuple(rewrite(m, rules) for m in t[2:])
    if tag in ('tv', 'c1', 'ty', 'g'):
        return t[:2] + (rewrite(t[2], rules),)
    if tag == 'c2':
        return t[:2] + (rewrite(t[2], rules), rewrite(t[3], rules))
    if tag == 'ann':
        return ('ann', rewrite(t[1], rules)) + t[2:]
    if tag == 'annm':
        return ('annm', rewrite(t[1], rules))
    raise ValueError(t)


def mentions(t, names):
    if t[0] == 'a':
        return t[1] in names
    if t[0] == 'lit':
        return False
    return any(mentions(m, names) for m in t[1:] if isinstance(m, tuple) and m and isinstance(m[0], str) and m[0] in
               ('a', 'u', 'lit', 'tf', 'tv', 'c1', 'c2', 'ty', 'ann', 'annm', 'g'))


def hints(tier):
    base = [A(n) for n in ('float', 'complex', 'K', 'str', 'NF', 'TF', 'int', 'K2')]
    fl, cx, K, s, i = A('float'), A('complex'), A('K'), A('str'), A('int')
    l0 = list(base)
    l0 += [('u', 'O', fl), ('u', 'U', fl, s), ('u', 'B', s, fl), ('u', 'U', K, A('none')), ('u', 'U', K, A('bytes')), ('u', 'U', cx, s),
           ('u', 'U', fl, cx), ('u', 'U', K, fl, s), ('u', 'O', K), ('u', 'U', A('NF'), s), ('u', 'U', fl, i), ('u', 'U', K, A('Other')),
           ('annm', fl), ('annm', cx), ('annm', K), ('annm', s), ('annm', ('u', 'O', fl)), ('annm', A('NF')),
           ('ann', fl, ('is', 'pos')), ('ann', K, ('is', 'truthy')), ('ann', s, ('is', 'truthy')), ('ann', cx, ('is', 'truthy')),
           ('ann', fl, ('not', ('iseq', '1'))), ('ty', 'b', fl), ('ty', 'b', K), ('ty', 't', cx), ('ty', 'b', ('u', 'U', fl, s)),
           ('lit', '1'), ('u', 'U', ('lit', '1'), fl)]
    c1 = HE.CORE_C1 if tier == 'quick' else list(HS.C1)
    c2 = HE.CORE_C2 if tier == 'quick' else list(HS.C2)
    l1 = []
    for c in l0:
        for f in c1:
            l1.append(('c1', f, c))
        l1 += [('tv', 'b', c), ('tf', 'b', c), ('tf', 'b', c, i), ('tf', 'b', i, c, c), ('g', 'GL', c), ('g', 'G', c)]
    keys = [s, fl, K, A('NF'), ('u', 'U', fl, s)]
    vals = [fl, cx, K, s, ('u', 'O', fl), ('annm', fl), A('NF'), i]
    for f in c2:
        for k in keys:
            for v in vals:
                l1.append(('c2', f, k, v))
    l1 += [('u', 'O', ('c1', 'list', fl)), ('u', 'U', ('c1', 'list', fl), ('c2', 'dict', s, K)), ('annm', ('c1', 'list', fl)),
           ('ann', ('c1', 'list', K), ('is', 'truthy')), ('u', 'U', ('c1', 'list', fl), ('c1', 'list', s))]
    r1 = [('c1', 'list', fl), ('c1', 'Sequence', K), ('tv', 'b', cx), ('tf', 'b', fl, K), ('c1', 'set', fl), ('c1', 'deque', K),
          ('c1', 'Iterable', fl), ('c1', 'Collection', A('NF')), ('c2', 'dict', s, fl), ('c2', 'Mapping', fl, K),
          ('c2', 'ItemsView', s, fl), ('c1', 'ValuesView', fl), ('u', 'O', ('c1', 'list', fl)), ('g', 'GL', fl),
          ('c1', 'list', ('annm', fl)), ('c1', 'list', ('u', 'U', fl, s)), ('c1', 'list', ('ann', fl, ('is', 'pos'))),
          ('c1', 'list', ('ty', 'b', fl)), ('c1', 'Counter', fl), ('c1', 'FrozenSet', K)]
    c1b = ['list', 'Sequence', 'set', 'deque', 'Collection', 'Iterable', 'ValuesView'] if tier == 'quick' else c1
    c2b = ['dict', 'Mapping', 'ItemsView'] if tier == 'quick' else c2
    l2 = []
    for c in r1:
        for f in c1b:
            l2.append(('c1', f, c))
        l2 += [('tv', 'b', c), ('tf', 'b', c, fl), ('u', 'O', c)]
        for f in c2b:
            l2.append(('c2', f, s, c))
    out = l0 + l1 + l2
    if tier != 'quick':
        r2 = [('c1', 'list', ('c1', 'list', fl)), ('c2', 'dict', s, ('c1', 'list', K)), ('tv', 'b', ('c2', 'dict', s, fl)),
              ('c1', 'Sequence', ('u', 'O', ('c1', 'list', fl))), ('c1', 'list', ('tf', 'b', fl, K))]
        for c in r2:
            for f in ('list', 'Sequence', 'deque', 'Iterable', 'Collection'):
                out.append(('c1', f, c))
            out += [('tv', 'b', c), ('c2', 'dict', s, c), ('tf', 'b', c, fl)]
    seen, res = set(), []
    for t in out:
        if t not in seen:
            seen.add(t)
            try:
                HS.build(t)
            except TypeError:
                continue
            res.append(t)
    return res


EXTRA_OBJS = [V('1'), V('True'), V('1.5'), V('1j'), V("'a'"), V("b'x'"), V('None'), ('new', 'K'), ('new', 'K2'), ('new', 'Other'),
              ('cls', 'int'), ('cls', 'float'), ('cls', 'K'), ('cls', 'Other'), ('cls', 'bool'), ('cls', 'complex'),
              ('c', 'list', (V('1'),)), ('c', 'list', (V('1.5'), V('1'))), ('c', 'list', (V('1'), V('1.5')))]


def _cul(e):
    c = getattr(e, 'culprits', None)
    if c is None:
        return None
    # addresses differ between two builds of the same one-shot iterator / instance: compare modulo 0x... addresses
    return tuple((type(i).__name__, _ADDR.sub('0x', i if isinstance(i, str) else repr(i))) for i in c)


def observe(h, conf, f, x_mk, r, rec):
    """(is_bearable, die outcome, decorated outcome) for a fresh object under draw r."""
    from beartype.door import is_bearable, die_if_unbearable
    from beartype.roar import BeartypeCallHintViolation
    drive.DRAW[0] = r
    out = []
    x = x_mk()
    try:
        out.append(('b', is_bearable(x, h, conf=conf)))
    except Exception as e:
        out.append(('b!', type(e).__name__))
    del rec[:]
    try:
        die_if_unbearable(x, h, conf=conf)
        out.append(('d', 'warn' if rec else 'ok', None))
    except BeartypeCallHintViolation as e:
        out.append(('d', 'viol', _cul(e)))
    except Exception as e:
        out.append(('d', 'exc' if type(e).__module__.startswith('bearmc') else 'ERR:' + type(e).__name__, None))
    del rec[:]
    try:
        res = f(x)
        out.append(('f', 'warn' if rec else 'ok', res is x))
    except BeartypeCallHintViolation as e:
        out.append(('f', 'viol', _cul(e)))
    except Exception as e:
        out.append(('f', 'exc' if type(e).__module__.startswith('bearmc') else 'ERR:' + type(e).__name__, None))
    del rec[:]
    return out


def norm_verdict(obs):
    """accept/reject vector irrespective of how the signal is delivered."""
    return tuple([obs[0][1]] + [o[1] == 'ok' for o in obs[1:]])


def _script(t, t2, cname, o, r):
    kw, ov, rules = rules_table()[cname]
    ovs = '{' + ', '.join(f'{HS.src(A(k))}: {HS.src(v)}' for k, v in ov.items()) + '}'
    kws = ', '.join(f'{k}={v!r}' for k, v in kw.items())
    return (drive.PRELUDE + f'''from beartype import FrozenDict
H  = {HS.src(t)}
H2 = {HS.src(t2)}      # H rewritten by hand
conf = BeartypeConf({kws}{", " if kws and ov else ""}{"hint_overrides=FrozenDict(" + ovs + ")" if ov else ""})
mk = lambda: {O.osrc(o)}
DRAW[0] = {r}
print('conf-rewritten :', is_bearable(mk(), H, conf=conf))
print('hand-rewritten :', is_bearable(mk(), H2))
for h, c in ((H, conf), (H2, BeartypeConf())):
    try: die_if_unbearable(mk(), h, conf=c); print('die_if_unbearable -> returned')
    except Exception as e: print('die_if_unbearable ->', type(e).__name__, getattr(e, 'culprits', None))
''')


def check_hint(t, order, part, gen, tier, seed):
    viol, cov = part['violations'], part['cover']
    tbl = _STATE['rules']
    names = list(tbl)
    if order:
        names = names[::-1]
    dflt = _STATE['default']
    res = _STATE['res']
    with warnings.catch_warnings(record=True) as rec:
        warnings.simplefilter('always')
        from beartype.roar import BeartypeDecorHintPep585DeprecationWarning
        warnings.filterwarnings('ignore', category=BeartypeDecorHintPep585DeprecationWarning)
        names = [c for c in names if mentions(t, set(tbl[c][2]))]
        deep = HS.depth(t) >= 2
        if tier == 'quick' and deep and len(names) > 2:
            k = (seed + hash(HS.src(t))) % len(names)
            names = [names[k], names[(k + 1) % len(names)]]
        for cname in names:
            kw, ov, rules = tbl[cname]
            t2 = rewrite(t, rules)
            conf = _STATE['confs'][cname]
            h, h2 = HS.build(t), HS.build(t2)
            e1 = e2 = None
            try:
                f1 = drive.make_identity(h, conf)
            except Exception as e:
                e1 = e
            try:
                f2 = drive.make_identity(h2, dflt)
            except Exception as e:
                e2 = e
            if e1 is not None or e2 is not None:
                # a hint that cannot be decorated must fail the same way whether rewritten by configuration or by hand
                cov['undecoratable'] += 1
                if type(e1) is not type(e2):
                    viol.append((f'setup:{cname}:{HE.shape(t)}',
                                 f'decorating H = {HS.src(t)} under {cname}: {type(e1).__name__ if e1 else "ok"}; decorating hand-rewritten '
                                 f'H2 = {HS.src(t2)}: {type(e2).__name__ if e2 else "ok"} ({str(e1 or e2)[:160]})',
                                 {'term': t, 'conf': cname, 'order': order}))
                continue
            objs = []
            for lst, cap in ((gen.wit(t2), 6), (gen.bad(t2), 4), (gen.mixed(t2), 6), (gen.wit(t), 3), (gen.bad(t), 3)):
                if tier != 'quick':
                    cap *= 4
                if len(lst) > cap:
                    step = -(-len(lst) // cap)
                    lst = lst[seed % step::step]
                objs += lst
            seen = set()
            for o in objs + (EXTRA_OBJS if not (deep and tier == 'quick') else EXTRA_OBJS[:4]):
                if o in seen:
                    continue
                seen.add(o)
                # one object shared by both sides: the two runs must see the very same input
                x = O.mk(o)
                oneshot = o[0] == 'c' and o[1] in ('gen', 'iter')
                mkx = (lambda o=o: O.mk(o)) if oneshot else (lambda x=x: x)
                for r in res:
                    a = observe(h, conf, f1, mkx, r, rec)
                    b = observe(h2, dflt, f2, mkx, r, rec)
                    cov['evaluations'] += 6
                    cov['states'] += 1
                    cov['reject' if a[0][1] is False else 'accept'] += 1
                    if a != b:
                        viol.append((f'rewrite:{cname}:{HE.shape(t)}',
                                     f'conf {cname} on H = {HS.src(t)} gives {a}, hand-rewritten H2 = {HS.src(t2)} under the default conf gives {b}; x = {O.osrc(o)}, draw = {r}, conf order {"reversed" if order else "forward"}',
                                     {'term': t, 'conf': cname, 'oterm': o, 'draw': r, 'order': order, 'script': _script(t, t2, cname, o, r)}))
                        break
                else:
                    continue
                break
        # violation_* family: only the class of the signal changes
        if order == 0 and not (deep and tier == 'quick'):
            h = HS.build(t)
            from beartype.roar import BeartypeCallHintViolation
            fs = {k: drive.make_identity(h, c) for k, c in _STATE['vconfs'].items()}
            frs = {k: drive.make_return_only(h, c) for k, c in _STATE['vconfs'].items()}
            fps = {k: drive.make_param_only(h, c) for k, c in _STATE['vconfs'].items()}
            objs = (gen.wit(t)[:4] + gen.bad(t)[:4] + gen.mixed(t)[:6])
            for o in objs:
                x = O.mk(o)
                oneshot = o[0] == 'c' and o[1] in ('gen', 'iter')
                mkx = (lambda o=o: O.mk(o)) if oneshot else (lambda x=x: x)
                for r in (0, 1, 2):
                    ref = None
                    for k, c in _STATE['vconfs'].items():
                        ob = observe(h, c, fs[k], mkx, r, rec)
                        v = norm_verdict(ob)
                        # the signal is delivered as configured: the configured class is raised, or warned and the call proceeds
                        kinds = {}
                        for kind, fn in (('param', fps[k]), ('return', frs[k])):
                            drive.DRAW[0] = r
                            del rec[:]
                            try:
                                fn(mkx())
                                kinds[kind] = 'warn' if rec else 'ok'
                            except BeartypeCallHintViolation:
                                kinds[kind] = 'viol'
                            except Exception as e:
                                kinds[kind] = 'exc' if type(e).__module__.startswith('bearmc') else 'ERR:' + type(e).__name__
                            del rec[:]
                        rkind = kinds['return']
                        exp = _STATE['vexp'][k]
                        for kind, got in (('door', ob[1][1]), ('param', kinds['param']), ('return', rkind)):
                            want = 'warn' if issubclass(exp[kind], Warning) else 'viol' if exp[kind].__module__.startswith('beartype') else 'exc'
                            if got != 'ok' and got != want:
                                viol.append((f'violation_type:delivery:{k}:{kind}:{got}',
                                             f'under {k} a {kind} rejection is delivered as {got}, configured {exp[kind].__name__} ({want}) for x = {O.osrc(o)}, H = {HS.src(t)}, draw = {r}',
                                             {'term': t, 'conf': k, 'oterm': o, 'draw': r, 'order': 0}))
                        if (rkind == 'ok') != v[0]:
                            viol.append((f'violation_type:return-verdict:{k}:{HE.shape(t)}', f'return check under {k} {"accepts" if rkind == "ok" else "rejects"} x = {O.osrc(o)} which is_bearable {"accepts" if v[0] else "rejects"} (H = {HS.src(t)}, draw = {r})',
                                         {'term': t, 'conf': k, 'oterm': o, 'draw': r, 'order': 0}))
                        cov['evaluations'] += 5
                        if ref is None:
                            ref = v
                        elif v != ref:
                            viol.append((f'violation_type:{k}:{HE.shape(t)}',
                                         f'verdicts under {k} = {v} differ from the default configuration {ref} for x = {O.osrc(o)}, H = {HS.src(t)}, draw = {r}',
                                         {'term': t, 'conf': k, 'oterm': o, 'draw': r, 'order': 0}))
                            break


def _work(shard):
    part = {'cover': {'evaluations': 0, 'states': 0, 'accept': 0, 'reject': 0, 'hints': 0, 'undecoratable': 0}, 'violations': []}
    gen = O.Gen()
    for t, order in _STATE['shards'][shard]:
        part['cover']['hints'] += 1
        check_hint(t, order, part, gen, _STATE['tier'], _STATE['seed'])
    return part


def _setup(ctx_tier, seed):
    drive.install_draw()
    from beartype import BeartypeConf
    tbl = rules_table()
    from .c03 import conf_table
    ct = conf_table()
    _STATE.update(tier=ctx_tier, seed=seed, rules=tbl, default=BeartypeConf(),
                  confs={k: make_conf(kw, ov) for k, (kw, ov, rules) in tbl.items()},
                  vconfs={k: ct[k][0] for k in ('default', 'exc', 'warn', 'perkind', 'mixed', 'mixed-return-warns')},
                  vexp={k: ct[k][1] for k in ct},
                  res=(0, 1, 2) if ctx_tier == 'quick' else tuple(range(6)) + (2 ** 32 - 1,))


def run(ctx):
    _setup(ctx.tier, ctx.seed)
    hs = hints(ctx.tier)
    if ctx.quick:
        # quick: all hints of nesting <= 1, every second deeper hint (offset rotates with VERIF_SEED)
        hs = [t for i, t in enumerate(hs) if HS.depth(t) <= 1 or i % 2 == ctx.seed % 2]
    work = [(t, 0) for t in hs] + [(t, 1) for t in hs if HS.depth(t) <= (0 if ctx.quick else 1)]
    sh = [[] for _ in range(NSHARDS)]
    for i, (t, order) in enumerate(work):
        # the two orders of one hint always land in different shards (= different processes)
        sh[(i * 2 + order * (NSHARDS // 2 + 1)) % NSHARDS if False else (hash(HS.src(t)) * 2 + order) % NSHARDS].append((t, order))
    _STATE['shards'] = sh
    tot = {}
    for part in ctx.pmap(_work, range(NSHARDS), fresh=True):
        for k, v in part['cover'].items():
            tot[k] = tot.get(k, 0) + v
        for v in part['violations']:
            ctx.violation(*v)
    ctx.cover(
        evaluations=tot['evaluations'], states=tot['states'], transitions=tot['evaluations'],
        traces_validated_against_impl=tot['evaluations'], distinct_nontrivial=tot['reject'],
        hints=len(hs), work_items=len(work), rewriting_configurations=list(_STATE['rules']),
        violation_configurations=list(_STATE['vconfs']), accepted=tot['accept'], rejected=tot['reject'], draws=list(_STATE['res']),
        exhaustive=(ctx.tier == 'thorough'),
        samples=[{'hint': HS.src(hs[len(hs) // 2]), 'conf': 'tower', 'rewritten': HS.src(rewrite(hs[len(hs) // 2], rules_table()['tower'][2]))},
                 {'hint': HS.src(hs[40]), 'conf': 'K->K|Other', 'rewritten': HS.src(rewrite(hs[40], rules_table()['K->K|Other'][2]))}],
        rule=('E1 metamorphic: hint terms over {float, complex, K, str, NewType(float), TypeVar(bound=float)} in every container family, '
              'unions, Optional, Annotated (validators and plain metadata), type[], fixed/variadic tuples, generics, nesting <= 2 '
              '(3 thorough) x 9 rewriting configurations (tower, overrides to a class / union / self-referential union / object / '
              'container hint, both together) x objects (witnesses, violators and mixed containers of both the original and the '
              'rewritten hint) x draw residues: observation under the configuration must equal the observation of the hand-rewritten '
              'hint under the default configuration (is_bearable, die_if_unbearable incl. culprits, decorated param+return), with the '
              'configuration list walked forward and backward in separate processes; plus verdict invariance and configured delivery (raised class / warned and proceeding, per door / parameter / return) under 6 violation_* settings. '
              'states = (hint, conf, object, draw); distinct_nontrivial = rejecting states.'),
    )
    if not tot.get('accept') or not tot.get('reject'):
        raise AssertionError('vacuous')


def replay(ctx, case):
    _setup('quick', 0)
    part = {'cover': {'evaluations': 0, 'states': 0, 'accept': 0, 'reject': 0, 'hints': 0, 'undecoratable': 0}, 'violations': []}
    check_hint(_tt(case['term']), case.get('order', 0), part, O.Gen(), 'thorough', 0)
    for v in part['violations']:
        ctx.violation(*v)


def _tt(x):
    if isinstance(x, list):
        return tuple(_tt(i) for i in x)
    return x
