"""C03 -- all entry points agree; every rejection is the configured, explained violation.

For every (hint, object, draw residue, configuration) six entry points are run under the same
scripted draw: is_bearable, die_if_unbearable, TypeHint.is_bearable, TypeHint.die_if_unbearable,
decorated parameter, decorated return.  Oracle (DESIGN 5/C03): one verdict; rejections are exactly
the configured class per pith kind (warning classes are *emitted* and the call proceeds); the message
contains repr(H); culprits[0] is the object (or its repr for objects that cannot be weakly referenced);
never any other exception.
"""
from __future__ import annotations

import re
import warnings

from .. import drive, hintenum as HE
from ..model import hintsem as HS, objs as O

PROPERTY = 'C03'
NSHARDS = 96
_STATE = {}
_REPRS = {}
_ANSI = re.compile(r'\x1b\[[0-9;]*m')


class ExcD(Exception):
    pass


class ExcP(Exception):
    pass


class ExcR(Exception):
    pass


class WarnP(UserWarning):
    pass


class WarnR(UserWarning):
    pass


def conf_table():
    """name -> (kwargs source, kwargs, expected class per kind {'door','param','return'} or None for default)"""
    from beartype import BeartypeConf, BeartypeStrategy, BeartypeViolationVerbosity as VV
    from beartype.roar import (BeartypeDoorHintViolation as D, BeartypeCallHintParamViolation as P,
                               BeartypeCallHintReturnViolation as R)
    dflt = {'door': D, 'param': P, 'return': R}
    E, W = drive.ExcViolation, drive.WarnViolation
    tbl = {
        'default': ({}, dflt),
        'exc': ({'violation_type': E}, {'door': E, 'param': E, 'return': E}),
        'warn': ({'violation_type': W}, {'door': W, 'param': W, 'return': W}),
        'perkind': ({'violation_door_type': ExcD, 'violation_param_type': ExcP, 'violation_return_type': ExcR},
                    {'door': ExcD, 'param': ExcP, 'return': ExcR}),
        'mixed': ({'violation_type': E, 'violation_param_type': WarnP}, {'door': E, 'param': WarnP, 'return': E}),
        'mixed-return-warns': ({'violation_type': E, 'violation_return_type': WarnR}, {'door': E, 'param': E, 'return': WarnR}),
        'minimal': ({'violation_verbosity': VV.MINIMAL, 'is_color': False}, dflt),
        'maximal-color': ({'violation_verbosity': VV.MAXIMAL, 'is_color': True}, dflt),
        'On': ({'strategy': BeartypeStrategy.On}, dflt),
        'color-none': ({'is_color': None}, dflt),
        'nonrandom-warn': ({'is_random': False, 'violation_door_type': W}, {'door': W, 'param': P, 'return': R}),
    }
    return {k: (BeartypeConf(**kw), exp, kw) for k, (kw, exp) in tbl.items()}


def _conf_src(kw):
    def s(v):
        if isinstance(v, type):
            return v.__name__ if v.__module__ != 'bearmc.checks.c03' else f'__import__("bearmc.checks.c03").checks.c03.{v.__name__}'
        if hasattr(v, 'name') and hasattr(type(v), '__members__'):
            return f'__import__("beartype").{type(v).__name__}.{v.name}'
        return repr(v)
    return 'BeartypeConf(' + ', '.join(f'{k}={s(v)}' for k, v in kw.items()) + ')'


ENTRIES = ('is_bearable', 'die_if_unbearable', 'TypeHint.is_bearable', 'TypeHint.die_if_unbearable', 'param', 'return')
KIND = {'die_if_unbearable': 'door', 'TypeHint.die_if_unbearable': 'door', 'param': 'param', 'return': 'return'}


def _script(t, o, r, kw):
    return (drive.PRELUDE + f'''H = {HS.src(t)}
conf = {_conf_src(kw)}
mk = lambda: {O.osrc(o)}
DRAW[0] = {r}
@beartype(conf=conf)
def fp(a: H): return None
@beartype(conf=conf)
def fr(a) -> H: return a
calls = [('is_bearable', lambda: is_bearable(mk(), H, conf=conf)), ('die_if_unbearable', lambda: die_if_unbearable(mk(), H, conf=conf)),
         ('TypeHint.is_bearable', lambda: TypeHint(H).is_bearable(mk(), conf=conf)),
         ('TypeHint.die_if_unbearable', lambda: TypeHint(H).die_if_unbearable(mk(), conf=conf)),
         ('param', lambda: fp(mk())), ('return', lambda: fr(mk()))]
for name, call in calls:
    with warnings.catch_warnings(record=True) as rec:
        warnings.simplefilter('always')
        try: print(name, '->', call(), [w.category.__name__ for w in rec])
        except Exception as e: print(name, '-> raised', type(e).__name__, getattr(e, 'culprits', None), str(e)[:100])
''')


def _culprit_ok(c, x):
    if not isinstance(c, tuple) or not c:
        return False
    c0 = c[0]
    if c0 is x:
        return True
    if isinstance(c0, str):
        try:
            import weakref
            weakref.ref(x)
            weakrefable = True
        except TypeError:
            weakrefable = False
        if weakrefable:
            return False
        rx = repr(x)
        # beartype's represent_object() double-quotes representations that are not already delimited by punctuation
        if len(c0) >= 2 and c0[0] == '"' and not rx.startswith('"'):
            c0 = c0[1:-1] if c0.endswith('"') else c0[1:]
        if c0 == rx:
            return True
        # truncated representation: a common prefix of reasonable length
        n = min(len(c0), len(rx), 12)
        return n > 0 and c0[:n] == rx[:n]
    return False


def _filters():
    from beartype.roar import BeartypeDecorHintPep585DeprecationWarning
    warnings.simplefilter('always')
    # documented deprecation notice for typing.X spellings, emitted once when a hint is first compiled; not a verdict
    warnings.filterwarnings('ignore', category=BeartypeDecorHintPep585DeprecationWarning)


TYPEHINT_UNSUPPORTED = ('AL', 'ALgi', 'ALr', 'InitI', 'PathS', 'TupU', 'TupUU')


def run_case(t, h, th, fp, fr, conf, exp, o, r, rec):
    """Returns (verdict vector, problems list).  verdict: True accept / False reject / 'X' anomaly."""
    from beartype.door import is_bearable, die_if_unbearable
    drive.DRAW[0] = r
    probs = []
    verd = []
    # beartype memoises checkers and TypeHint wrappers per hint *equality*: the message may name an equal
    # hint spelled differently (list[str | int] vs list[Union[int, str]]) that this process compiled earlier.
    # "Names the hint" is therefore judged up to hint equality: any spelling of an equal hint seen so far.
    try:
        spellings = _REPRS.setdefault(h, set())
    except TypeError:
        spellings = set()
    spellings.add(repr(h))
    if th is not None:
        spellings.add(repr(th.hint))
    # One object for all six entry points: rebuilding it could change the iteration order of sets keyed on id()-hashed
    # members, i.e. hand different inputs to the entry points.  (One-shot iterators are rebuilt: a check must not
    # consume them, but that is C10's concern.)
    oneshot = o[0] == 'c' and o[1] in ('gen', 'iter')
    x = O.mk(o)
    entries = ENTRIES if th is not None else [e for e in ENTRIES if not e.startswith('TypeHint')]
    for entry in entries:
        if oneshot:
            x = O.mk(o)
        del rec[:]
        try:
            if entry == 'is_bearable':
                res = is_bearable(x, h, conf=conf)
            elif entry == 'die_if_unbearable':
                res = die_if_unbearable(x, h, conf=conf)
            elif entry == 'TypeHint.is_bearable':
                res = th.is_bearable(x, conf=conf)
            elif entry == 'TypeHint.die_if_unbearable':
                res = th.die_if_unbearable(x, conf=conf)
            elif entry == 'param':
                res = fp(x)
            else:
                res = fr(x)
        except Exception as e:
            kind = KIND.get(entry)
            want = exp.get(kind) if kind else None
            if want is None or issubclass(want, Warning) or type(e) is not want:
                probs.append(('class', entry, f'{entry} raised {type(e).__name__} (configured: {want.__name__ if want else "no exception: boolean tester"})'))
                verd.append('X')
                continue
            verd.append(False)
            msg = _ANSI.sub('', str(e))
            if not any(sp in msg for sp in spellings):
                probs.append(('message', entry, f'{entry}: violation message does not name the hint {repr(h)}: {msg[:140]!r}'))
            c = getattr(e, 'culprits', None)
            if c is not None or not isinstance(e, (drive.ExcViolation, ExcD, ExcP, ExcR)):
                if not _culprit_ok(c, x):
                    probs.append(('culprits', entry, f'{entry}: culprits {c!r} do not begin with the rejected object {x!r}'))
            if rec:
                probs.append(('warning', entry, f'{entry}: raised and also warned {rec[0].category.__name__}'))
            continue
        # returned normally
        kind = KIND.get(entry)
        if kind is None:
            if res is not True and res is not False:
                probs.append(('class', entry, f'{entry} returned {res!r}'))
                verd.append('X')
            else:
                verd.append(res)
            if rec:
                probs.append(('warning', entry, f'{entry}: boolean tester warned {rec[0].category.__name__}: {str(rec[0].message)[:100]}'))
            continue
        want = exp[kind]
        if rec:
            ws = [w for w in rec]
            if len(ws) != 1 or not issubclass(want, Warning) or ws[0].category is not want:
                probs.append(('class', entry, f'{entry} emitted {[w.category.__name__ for w in ws]} (configured: {want.__name__})'))
                verd.append('X')
                continue
            verd.append(False)
            msg = _ANSI.sub('', str(ws[0].message))
            if not any(sp in msg for sp in spellings):
                probs.append(('message', entry, f'{entry}: warning message does not name the hint {repr(h)}: {msg[:140]!r}'))
            if entry == 'return' and res is not x:
                probs.append(('proceed', entry, 'return check warned but the call did not return the original value'))
        else:
            verd.append(True)
            if entry == 'return' and res is not x:
                probs.append(('proceed', entry, 'decorated call did not return the original value'))
    if len(set(verd)) != 1:
        probs.append(('disagree', 'all', 'entry points disagree: ' + ', '.join(f'{e}={v}' for e, v in zip(entries, verd))))
    return verd, probs


def check_hint(t, confsel, gen, part, tier, seed):
    from beartype.door import TypeHint
    viol, cov = part['violations'], part['cover']
    h = HS.build(t)
    objs = []
    ws, bs, ob = gen.wit(t), gen.bad(t), gen.onebad(t)
    capw, capb = (6, 6) if tier == 'quick' else (16, 16)
    for lst, cap in ((ws, capw), (bs, capb)):
        if len(lst) > cap:
            step = -(-len(lst) // cap)
            lst = lst[seed % step::step]
        objs += [(o, (0, 2 ** 32 - 1)) for o in lst]
    objs += [(o, tuple(range(6))) for o, n, i in (ob if tier != 'quick' else ob[:18])]
    mx = gen.mixed(t)
    if tier == 'quick' and len(mx) > 14:
        step = -(-len(mx) // 14)
        mx = mx[seed % step::step]
    seen = {o for o, _ in objs}
    objs += [(o, tuple(range(6))) for o in mx if o not in seen]
    for cname, (conf, exp, kw) in confsel.items():
        try:
            with warnings.catch_warnings():
                warnings.simplefilter('ignore')
                try:
                    th = TypeHint(h)
                except Exception as e:
                    # hint kinds the object-oriented API documents as not (yet) wrappable: "currently unsupported by
                    # beartype.door.TypeHint".  No verdict is reached through it; the other four entry points are compared.
                    if type(e).__name__ == 'BeartypeDoorNonpepException' and t[0] == 'a' and t[1] in TYPEHINT_UNSUPPORTED:
                        th = None
                    else:
                        raise
                fp = drive.make_param_only(h, conf)
                fr = drive.make_return_only(h, conf)
        except Exception as e:
            viol.append((f'setup:{type(e).__name__}:{HE.shape(t)}', f'{type(e).__name__}: {str(e)[:200]} for H = {HS.src(t)}',
                         {'hint': HS.src(t), 'term': t, 'conf': cname}))
            return
        with warnings.catch_warnings(record=True) as rec:
            _filters()
            for o, rs in objs:
                for r in rs:
                    verd, probs = run_case(t, h, th, fp, fr, conf, exp, o, r, rec)
                    cov['evaluations'] += 6
                    cov['states'] += 1
                    key = 'accept' if verd[0] is True else 'reject' if verd[0] is False else 'anomaly'
                    cov[key] += 1
                    part['outcomes'].add((cname, key))
                    for kind, entry, text in probs:
                        viol.append((f'{kind}:{entry}:{cname}:{HE.shape(t)}',
                                     f'{text}  [x = {O.osrc(o)}, H = {HS.src(t)}, draw = {r}, conf = {cname}]',
                                     {'hint': HS.src(t), 'term': t, 'obj': O.osrc(o), 'oterm': o, 'draw': r, 'conf': cname,
                                      'script': _script(t, o, r, kw)}))
                    if probs:
                        break
                else:
                    continue
                break


def _work(shard):
    tier, seed = _STATE['tier'], _STATE['seed']
    hints = _STATE['hints']
    tbl = _STATE['tbl']
    names = list(tbl)
    part = {'cover': {'evaluations': 0, 'states': 0, 'accept': 0, 'reject': 0, 'anomaly': 0, 'hints': 0}, 'violations': [],
            'outcomes': set()}
    gen = O.Gen()
    core = _STATE['core']
    for idx, t in enumerate(_STATE['shards'][shard]):
        idx = idx * NSHARDS + shard
        part['cover']['hints'] += 1
        if t in core:
            sel = tbl
        else:
            k = names[1 + (idx + seed) % (len(names) - 1)]
            sel = {'default': tbl['default'], k: tbl[k]}
        check_hint(t, sel, gen, part, tier, seed)
    part['outcomes'] = sorted(part['outcomes'])
    return part


def run(ctx):
    assert HS.selftest() and O.selftest()
    drive.install_draw()
    hints = HE.hints(ctx.tier)
    core = set(HE.level0(extra=False)[:60] + [HE.A(n) for n in HE.ATOMS_EXTRA[::3]] + HE.reps1('all') + HE.reps2()) if ctx.quick else set(hints[::3])
    _STATE.update(tier=ctx.tier, seed=ctx.seed, hints=hints, tbl=conf_table(), core=core)
    _STATE['shards'] = HE.shards(hints, NSHARDS)
    tot, outcomes = {}, set()
    for part in ctx.pmap(_work, range(NSHARDS), fresh=True):
        for k, v in part['cover'].items():
            tot[k] = tot.get(k, 0) + v
        outcomes |= set(map(tuple, part['outcomes']))
        for v in part['violations']:
            ctx.violation(*v)
    ctx.cover(
        evaluations=tot['evaluations'], states=tot['states'], transitions=tot['evaluations'],
        traces_validated_against_impl=tot['evaluations'], distinct_nontrivial=tot['reject'],
        accepted_cases=tot['accept'], rejected_cases=tot['reject'], hints=len(hints), full_conf_core_hints=len(core),
        configurations=list(_STATE['tbl']), distinct_outcomes=sorted(outcomes), exhaustive=False,
        samples=[{'hint': HS.src(hints[400]), 'entries': list(ENTRIES), 'conf': 'perkind',
                  'expected_classes': ['ExcD', 'ExcP', 'ExcR']}],
        rule=('E1: hint terms of hintenum.hints(tier) x (conforming witnesses, structured violators, one-bad-item sequences for '
              'all 6 residues) x configurations (all 10 on a core of representative hints, default + one rotating configuration '
              'elsewhere; pairwise rather than full product of the option axes) x 6 entry points under the same scripted draw. '
              'states = (hint, conf, object, draw) cases; distinct_nontrivial = cases in which the common verdict was a rejection '
              '(every rejection exercises class, message, culprits).'),
    )
    ctx.assume('message is checked for containing repr(H) after stripping ANSI colour codes',
               'culprits[0] may be the repr string for objects that cannot be weakly referenced (documented caveat)')
    if not tot.get('accept') or not tot.get('reject'):
        raise AssertionError('vacuous: one of the two verdicts never occurred')


def replay(ctx, case):
    drive.install_draw()
    t = _tt(case['term'])
    tbl = conf_table()
    gen = O.Gen()
    o = _tt(case['oterm'])
    gen._wit[t], gen._bad[t] = [o], []
    gen.onebad = lambda t: []
    part = {'cover': {'evaluations': 0, 'states': 0, 'accept': 0, 'reject': 0, 'anomaly': 0, 'hints': 0}, 'violations': [],
            'outcomes': set()}
    cname = case['conf']
    from beartype.door import TypeHint
    conf, exp, kw = tbl[cname]
    h = HS.build(t)
    with warnings.catch_warnings(record=True) as rec:
        _filters()
        verd, probs = run_case(t, h, TypeHint(h), drive.make_param_only(h, conf), drive.make_return_only(h, conf), conf, exp, o,
                               case['draw'], rec)
    for kind, entry, text in probs:
        ctx.violation(f'{kind}:{entry}:{cname}:{HE.shape(t)}', text, case)


def _tt(x):
    if isinstance(x, list):
        return tuple(_tt(i) for i in x)
    return x
