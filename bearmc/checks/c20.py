"""C20 -- an inferred hint always accepts the object it was inferred from.  E1 over object terms.

Universe: scalars / callables / classes / stdlib odds and ends; every builtin and collections.abc carrier filled with
every tuple of <= 3 items over 4 atoms (depth 1); every carrier filled with <= 2 representative depth-1 containers,
all ordered pairs (depth 2: heterogeneous siblings); representative depth 3; dictionary views; self-referential
containers (builtin and user-defined).  Oracle: infer_hint(obj) returns; is_bearable(obj, hint) is True for every
draw residue; recursive containers terminate with BeartypeDoorInferHintRecursionWarning; no other warning/exception.
"""
from __future__ import annotations

import itertools
import warnings

from .. import drive
from ..model import objs as O

PROPERTY = 'C20'
NSHARDS = 64
_STATE = {}
V = O.V

ATOMS4 = [V('1'), V("'a'"), V('None'), V('1.5')]
SCALARS = [V(k) for k in ('1', '0', 'True', "'a'", "''", '1.5', 'None', "b'x'", '1j', 'E.A', 'IE.X')] + [
    ('new', 'K'), ('new', 'K2'), ('new', 'PImpl'), ('new', 'G'), ('cls', 'int'), ('cls', 'K'), ('cls', 'type'), ('fn', 'f')] + [
    ('raw', k) for k in O.RAW]
C_CARRIERS = ['list', 'tuple', 'set', 'frozenset', 'deque', 'USeq', 'UMSeq', 'USet', 'UMSet', 'UColl', 'UIter', 'URev', 'UCont', 'GL']
M_CARRIERS = ['dict', 'defaultdict', 'OrderedDict', 'Counter', 'ChainMap', 'UMap', 'UMMap', 'mappingproxy']


def fillings(atoms, maxlen):
    out = []
    for n in range(maxlen + 1):
        out += list(itertools.product(atoms, repeat=n))
    return out


def pair_lists(keys, vals, maxlen):
    pairs = [(k, v) for k in keys for v in vals]
    out = [()]
    out += [(p,) for p in pairs]
    if maxlen >= 2:
        out += [(p, q) for p in pairs for q in pairs if p[0] != q[0]]
    return out


def universe(tier):
    objs = list(SCALARS)
    d1 = []
    fl = fillings(ATOMS4, 3)
    for c in C_CARRIERS:
        for f in fl:
            d1.append(('c', c, f))
    keys, vals = [V('1'), V("'a'")], [V('1'), V("'a'"), V('None')]
    pls = pair_lists(keys, vals, 2)
    for c in M_CARRIERS:
        for pl in pls:
            if c == 'Counter' and any(v != V('1') for _, v in pl):
                continue
            d1.append(('m', c, pl))
    for pl in pls:
        for which in ('keys', 'values', 'items'):
            d1.append(('view', which, ('m', 'dict', pl)))
    for which in ('keys', 'values', 'items'):
        d1.append(('view', which, ('m', 'OrderedDict', pls[3])))
        d1.append(('view', which, ('m', 'UMap', pls[3])))
    d1 = [o for o in d1 if O.buildable(o)]
    objs += d1
    # depth 2: representative depth-1 containers as items
    reps1 = [('c', 'list', ()), ('c', 'list', (V('1'),)), ('c', 'list', (V("'a'"),)), ('c', 'list', (V('1'), V("'a'"))),
             ('c', 'tuple', (V('1'),)), ('c', 'tuple', (V('1'), V("'a'"))), ('c', 'frozenset', (V('1'),)), ('c', 'frozenset', (V("'a'"),)),
             ('m', 'dict', ((V("'a'"), V('1')),)), ('m', 'dict', ((V('1'), V("'a'")),)), ('m', 'dict', ()), ('c', 'USeq', (V('1'),)),
             ('c', 'USeq', (V("'a'"),)), ('c', 'deque', (V('1'),)), ('c', 'set', (V('1'),)), V('1'), V('None')]
    d2 = []
    fl2 = fillings(reps1, 2)
    if tier != 'quick':
        fl2 += [t for t in itertools.product(reps1[:8], repeat=3)]
    for c in C_CARRIERS:
        for f in fl2:
            if not f or all(i[0] == 'v' for i in f):
                continue
            d2.append(('c', c, f))
    for c in M_CARRIERS:
        if c == 'Counter':
            continue
        for a in reps1:
            d2.append(('m', c, ((V("'k'") if False else V("'a'"), a),)))
            for b in reps1[:9]:
                d2.append(('m', c, ((V("'a'"), a), (V('1'), b))))
        for k in (('c', 'tuple', (V('1'),)), ('c', 'frozenset', (V("'a'"),))):
            d2.append(('m', c, ((k, V('1')),)))
            d2.append(('m', c, ((k, ('c', 'list', (V('1'),))), (V('1'), V('1')))))
    for which in ('keys', 'values', 'items'):
        for a in reps1[:9]:
            d2.append(('view', which, ('m', 'dict', ((V("'a'"), a), (V('1'), reps1[2])))))
    d2 = [o for o in d2 if O.buildable(o)]
    objs += d2
    # depth 3 representatives
    reps2 = [('c', 'list', (('c', 'list', (V('1'),)), ('c', 'list', (V("'a'"),)))), ('m', 'dict', ((V("'a'"), ('c', 'list', (V('1'),))),)),
             ('c', 'tuple', (('m', 'dict', ((V('1'), V("'a'")),)), V('1'))), ('c', 'USeq', (('c', 'list', ()),)),
             ('c', 'list', (('c', 'tuple', (V('1'), V("'a'"))), ('c', 'tuple', (V("'a'"),))))]
    d3 = []
    for c in ('list', 'tuple', 'deque', 'USeq', 'UColl', 'frozenset'):
        for f in fillings(reps2, 2):
            if f:
                d3.append(('c', c, f))
    for c in ('dict', 'OrderedDict', 'UMap'):
        for a in reps2:
            d3.append(('m', c, ((V("'a'"), a),)))
            d3.append(('m', c, ((V("'a'"), a), (V('1'), reps2[0]))))
    d3 = [o for o in d3 if O.buildable(o)]
    objs += d3
    recs = [('rec', k) for k in O.REC_KINDS]
    return objs, recs, {'scalars': len(SCALARS), 'depth1': len(d1), 'depth2': len(d2), 'depth3': len(d3), 'recursive': len(recs)}


def sig_of(o):
    """Signature abstraction: carrier structure with scalar items abstracted to their type names."""
    tag = o[0]
    if tag == 'v':
        return type(O.VALS[o[1]]).__name__
    if tag in ('new', 'cls', 'raw', 'rec', 'fn'):
        return f'{tag}:{o[1] if len(o) > 1 else ""}'
    if tag == 'c':
        return o[1] + '(' + ','.join(sorted(set(sig_of(i) for i in o[2]))) + ')'
    if tag == 'm':
        return o[1] + '{' + ','.join(sorted(set(sig_of(k) + ':' + sig_of(v) for k, v in o[2]))) + '}'
    if tag == 'view':
        return f'{o[1]}-view-of-' + sig_of(o[2])
    return '?'


def _script(o):
    return (drive.PRELUDE + f'''from beartype.bite import infer_hint
x = {O.osrc(o)}
h = infer_hint(x)
print('inferred:', h)
for r in range(6):
    DRAW[0] = r
    print('draw', r, 'is_bearable ->', is_bearable(x, h))
''')


def check_obj(o, part, res, recursive=False):
    from beartype.bite import infer_hint
    from beartype.door import is_bearable
    from beartype.roar import BeartypeDoorInferHintRecursionWarning
    viol, cov = part['violations'], part['cover']
    x = O.mk(o)
    oneshot = (o[0] == 'c' and o[1] in ('gen', 'iter')) or (o[0] == 'raw' and o[1] in ('genexpr', 'enumerate', 'zip', 'map'))
    for cname, conf in _STATE['confs'].items():
        with warnings.catch_warnings(record=True) as rec:
            warnings.simplefilter('always')
            try:
                h = infer_hint(x) if conf is None else infer_hint(x, conf=conf)
            except BaseException as e:
                if isinstance(e, (KeyboardInterrupt, SystemExit)):
                    raise
                viol.append((f'infer-raises:{type(e).__name__}:{cname}:{sig_of(o)}', f'infer_hint({O.osrc(o)}) raised {type(e).__name__}: {str(e)[:160]} (conf {cname})',
                             {'oterm': o, 'conf': cname, 'script': _script(o)}))
                continue
        cov['evaluations'] += 1
        wcats = [w.category for w in rec]
        if recursive:
            # "terminate with a recursion warning instead of recursing forever": the warning is due exactly when the
            # inference actually ran into the cycle, i.e. when the hint carries the recursion placeholder
            hit = 'Recursion' in repr(h)
            if hit != (BeartypeDoorInferHintRecursionWarning in wcats):
                viol.append((f'recursion-warning-mismatch:{cname}:{sig_of(o)}',
                             f'infer_hint of self-referential {o[1]} returned {h!r} with warnings {[c.__name__ for c in wcats]}',
                             {'oterm': o, 'conf': cname}))
            cov['recursion_warnings'] += int(hit)
        other = [c.__name__ for c in wcats if c is not BeartypeDoorInferHintRecursionWarning]
        if other or (not recursive and wcats):
            viol.append((f'warning:{(other or [c.__name__ for c in wcats])[0]}:{cname}:{sig_of(o)}', f'infer_hint({O.osrc(o)}) warned {[c.__name__ for c in wcats]}',
                         {'oterm': o, 'conf': cname}))
        part['hints'].add(repr(h)[:80])
        if cname != 'default' or recursive:
            # (the recursion placeholder in the hint of a self-referential container cannot be satisfied: for those only
            # termination and the warning are promised.)
            continue          # O(1) inference looks at one item only: acceptance at full depth is promised for the default O(n) inference
        with warnings.catch_warnings():
            warnings.simplefilter('ignore')
            for r in res:
                drive.DRAW[0] = r
                xx = O.mk(o) if oneshot else x
                cov['evaluations'] += 1
                try:
                    ok = is_bearable(xx, h)
                except BaseException as e:
                    if isinstance(e, (KeyboardInterrupt, SystemExit)):
                        raise
                    ok = f'raised {type(e).__name__}: {str(e)[:120]}'
                if ok is not True:
                    viol.append((f'rejects:{sig_of(o)}', f'is_bearable(x, infer_hint(x)) = {ok} for x = {O.osrc(o)}, inferred hint {h!r}, draw {r}',
                                 {'oterm': o, 'conf': cname, 'draw': r, 'script': _script(o)}))
                    break
    cov['states'] += 1
    if o[0] in ('c', 'm', 'view') and len(o[2]) >= 2:
        cov['nontrivial'] += 1


def sequences():
    """Ordered pairs of objects inferred one after the other in a process of their own: the second inference must not be
    answered from what the first one left behind (classes sharing module and name but not their abc, containers of one
    type with differently typed items, same carrier with other contents)."""
    V = O.V
    S = [('c', 'DupSeqA', (V('1'),)), ('c', 'DupSeqB', (V('1'),)), ('c', 'DupSeqC', (V('1'),)), ('c', 'DupSeqB', (V("'a'"),)),
         ('c', 'list', (('c', 'list', (V('1'),)), ('c', 'list', (V("'a'"),)))), ('c', 'list', (('c', 'list', (V('1'),)),)), ('c', 'list', (V('1'),)),
         ('c', 'list', (V("'a'"), V('1'))), ('m', 'dict', ((V('1'), V("'a'")),)), ('m', 'dict', ((V("'a'"), ('c', 'list', (V('1'),))),)),
         ('c', 'USeq', (V('1'),)), ('c', 'tuple', (V('1'), V("'a'"))), ('c', 'tuple', (V('1'),)), ('new', 'DupA'), ('new', 'DupB'),
         ('c', 'list', (('new', 'DupA'),)), ('c', 'list', (('new', 'DupB'),))]
    return [(a, b) for a in S for b in S if a != b]


def _work_seq(idx):
    part = {'cover': {'evaluations': 0, 'states': 0, 'nontrivial': 0, 'recursion_warnings': 0}, 'violations': [], 'hints': set()}
    a, b = _STATE['seqs'][idx]
    check_obj(a, part, _STATE['res'][:2])
    n = len(part['violations'])
    check_obj(b, part, _STATE['res'][:2])
    # only what the *second* inference does is attributed to the history; re-label
    part['violations'] = part['violations'][:n] + [(f'after-inferring:{sig_of(a)}:{s}', f'(after infer_hint({O.osrc(a)}) in the same process) {w}', r)
                                                   for s, w, r in part['violations'][n:]]
    part['hints'] = len(part['hints'])
    return part


def _work(shard):
    part = {'cover': {'evaluations': 0, 'states': 0, 'nontrivial': 0, 'recursion_warnings': 0}, 'violations': [], 'hints': set()}
    import sys
    sys.setrecursionlimit(3000)
    for o in _STATE['objs'][shard::NSHARDS]:
        check_obj(o, part, _STATE['res'])
    for o in _STATE['recs'][shard::NSHARDS]:
        check_obj(o, part, _STATE['res'], recursive=True)
    part['hints'] = len(part['hints'])
    return part


def run(ctx):
    drive.install_draw()
    from beartype import BeartypeConf
    objs, recs, counts = universe(ctx.tier)
    _STATE.update(objs=objs, recs=recs, res=drive.residues(3, ctx.tier), confs={'default': None, 'O1': BeartypeConf()})
    tot = {}
    nh = 0
    for part in ctx.pmap(_work, range(NSHARDS), fresh=True):
        for k, v in part['cover'].items():
            tot[k] = tot.get(k, 0) + v
        nh += part['hints']
        for v in part['violations']:
            ctx.violation(*v)
    _STATE['seqs'] = sequences()
    nseq = 0
    for part in ctx.pmap(_work_seq, range(len(_STATE['seqs'])), fresh=True):
        nseq += 1
        for k, v in part['cover'].items():
            tot[k] = tot.get(k, 0) + v
        for v in part['violations']:
            ctx.violation(*v)
    ctx.cover(
        evaluations=tot['evaluations'], states=tot['states'], transitions=tot['evaluations'],
        traces_validated_against_impl=tot['evaluations'], distinct_nontrivial=tot['nontrivial'], objects=len(objs) + len(recs),
        universe=counts, distinct_inferred_hints_lower_bound=nh, recursion_warnings_seen=tot['recursion_warnings'],
        draws=_STATE['res'], exhaustive=True, ordered_pairs_in_one_process=nseq,
        samples=[O.osrc(objs[len(SCALARS) + 700]), O.osrc(objs[-40]), O.osrc(recs[3])],
        rule=('E1: every object term of the universe (scalars and stdlib odds and ends; 14 single-axis carriers x every item tuple of '
              'length <= 3 over 4 atoms; 8 mapping carriers x pair lists; dict views; depth 2 = every carrier over all tuples of <= 2 '
              '(3 thorough) representative depth-1 containers, i.e. heterogeneous siblings in both orders; depth-3 representatives; 16 '
              'self-referential builtin and user-defined containers) x {default O(n) inference, O(1) inference}; '
              'is_bearable(obj, infer_hint(obj)) for every draw residue under the default inference; plus every ordered pair over 17 objects chosen to collide '
              '(classes sharing module and name, one carrier with other item types) inferred one after the other in a fresh process.  states = objects; '
              'distinct_nontrivial = containers with >= 2 items.'),
    )
    ctx.assume('acceptance is asserted for the default (linear-time) inference only; O(1)-configured inference is only required to return')


def replay(ctx, case):
    drive.install_draw()
    from beartype import BeartypeConf
    _STATE.update(res=list(range(6)), confs={'default': None, 'O1': BeartypeConf()})
    part = {'cover': {'evaluations': 0, 'states': 0, 'nontrivial': 0, 'recursion_warnings': 0}, 'violations': [], 'hints': set()}
    o = _tt(case['oterm'])
    check_obj(o, part, list(range(6)), recursive=o[0] == 'rec')
    for v in part['violations']:
        ctx.violation(*v)


def _tt(x):
    if isinstance(x, list):
        return tuple(_tt(i) for i in x)
    return x
