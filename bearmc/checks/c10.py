"""C10 -- checking never modifies or consumes the object being checked.

E1 with spy objects (bearmc.spies): hints of the Iterable / Iterator / Generator / AsyncIterator / Container /
Reversible / Collection / Mapping / Sequence / Set families (depth <= 2, incl. unions and Optional) x every spy kind
(one-shot iterators with and without __len__ / __contains__, generators, list iterators, defaultdicts, user containers
logging every method) x conforming and violating contents x draw residues x entry points.
Oracle: no __next__ on an iterator that is the subject (or an item) of the check; a one-shot iterable yields all its
items afterwards; defaultdicts grow no keys; container contents before == after; the wrapped callable receives the
caller's objects; only the read-only protocol methods the property lists are invoked.
"""
from __future__ import annotations

import collections
import collections.abc as cabc
import typing
import warnings

from .. import drive, spies as S

PROPERTY = 'C10'
_STATE = {}

# methods a check may invoke on a *re-iterable collection*
ALLOWED = {'__len__', '__iter__', '__next__', '__getitem__', 'keys', 'values', 'items', 'keys.__iter__', 'values.__iter__', 'items.__iter__',
           'keys.__len__', 'values.__len__', 'items.__len__', '__contains__'}      # (__eq__ is granted for literals only; no hint here has one)
ON_REJECT = {'__repr__'}


def hints():
    T = typing
    I = int
    base = {
        'Iterable[int]': cabc.Iterable[I], 'Iterator[int]': cabc.Iterator[I], 'Generator[int,None,None]': cabc.Generator[I, None, None],
        'typing.Iterator[int]': T.Iterator[I], 'typing.Iterable[int]': T.Iterable[I], 'Container[int]': cabc.Container[I],
        'Reversible[int]': cabc.Reversible[I], 'Collection[int]': cabc.Collection[I], 'Sequence[int]': cabc.Sequence[I],
        'Set[int]': cabc.Set[I], 'Mapping[int,int]': cabc.Mapping[I, I], 'MutableMapping[int,int]': cabc.MutableMapping[I, I],
        'dict[int,int]': dict[I, I], 'DefaultDict[int,int]': T.DefaultDict[I, I], 'list[int]': list[I], 'deque[int]': collections.deque[I],
        'Iterable[str]': cabc.Iterable[str], 'Iterator[str]': cabc.Iterator[str], 'Collection[str]': cabc.Collection[str], 'Mapping[int,str]': cabc.Mapping[I, str],
        'DefaultDict[int,str]': T.DefaultDict[I, str], 'Iterable': cabc.Iterable, 'Iterator': cabc.Iterator, 'object': object,
        'AsyncIterator[int]': cabc.AsyncIterator[I], 'AsyncIterable[int]': cabc.AsyncIterable[I],
    }
    out = dict(base)
    for k in ('Iterable[int]', 'Iterator[int]', 'Collection[int]', 'Mapping[int,int]', 'Iterator[str]', 'DefaultDict[int,str]', 'Generator[int,None,None]'):
        h = base[k]
        out[f'Optional[{k}]'] = T.Optional[h]
        out[f'Union[{k},str]'] = T.Union[h, str]
        out[f'list[{k}]'] = list[h]
        out[f'dict[str,{k}]'] = dict[str, h]
        out[f'tuple[{k},int]'] = tuple[h, I]
        out[f'Iterable[{k}]'] = cabc.Iterable[h]
    return out


def subjects():
    """name -> (factory(items) -> object, expected remaining items reader, kind)"""
    def gen(items):
        for i in items:
            yield i

    class AIter:
        def __init__(self, items):
            self._it = iter(list(items))
            self._label = 'AIter'

        def __aiter__(self):
            S._log(self, '__aiter__')
            return self

        async def __anext__(self):
            S._log(self, '__anext__')
            try:
                return next(self._it)
            except StopIteration:
                raise StopAsyncIteration
    return {
        'generator': (gen, 'oneshot'), 'list_iterator': (lambda items: iter(list(items)), 'oneshot'),
        'OneShot': (S.OneShot, 'oneshot'), 'SizedOneShot': (S.SizedOneShot, 'oneshot'), 'CursorLike': (S.CursorLike, 'cursor'),
        'OnlyIterable': (S.OnlyIterable, 'reiter-noncollection'), 'OnlyReversible': (S.OnlyReversible, 'reiter-noncollection'),
        'OnlyContainer': (S.OnlyContainer, 'container'),
        'CList': (S.CList, 'collection'), 'CTuple': (S.CTuple, 'collection'), 'CSet': (S.CSet, 'collection'), 'CDeque': (S.CDeque, 'collection'),
        'CSeq': (S.CSeq, 'collection'), 'CColl': (S.CColl, 'collection'), 'CAbcSet': (S.CAbcSet, 'collection'),
        'CDict': (lambda items: S.CDict((i, i) for i in items), 'mapping'), 'CMap': (lambda items: S.CMap((i, i) for i in items), 'mapping'),
        'CDefaultDict': (lambda items: S.CDefaultDict(int, ((i, i) for i in items)), 'mapping'),
        'defaultdict': (lambda items: collections.defaultdict(int, ((i, i) for i in items)), 'mapping'),
        'CDefaultDict-of-str': (lambda items: S.CDefaultDict(str, ((i, str(i)) for i in items)), 'mapping'),
        'AIter': (AIter, 'async'),
        'dict_keys': (lambda items: {i: i for i in items}.keys(), 'collection'),
    }


CONTENTS = {'ints': [10, 20, 30], 'strs': ['a', 'b', 'c'], 'mixed': [10, 'b', 30], 'empty': [], 'one': [10]}


def drain(obj, kind):
    """What is left in the object after the check (used for one-shot subjects)."""
    if kind in ('oneshot', 'cursor'):
        return list(obj)
    return None


def snapshot(obj, kind):
    if kind == 'mapping':
        return ('mapping', sorted((repr(k), repr(v)) for k, v in dict.items(obj)) if isinstance(obj, dict) else sorted((repr(k), repr(v)) for k, v in obj._d.items()))
    if kind == 'collection':
        try:
            if isinstance(obj, (list, tuple, collections.deque)):
                return ('seq', [repr(i) for i in type(obj).__mro__[1].__iter__(obj)])
            if isinstance(obj, (set, frozenset)):
                return ('set', sorted(repr(i) for i in type(obj).__mro__[1].__iter__(obj)))
            if hasattr(obj, '_d'):
                return ('abc', [repr(i) for i in obj._d])
        except Exception:
            pass
    return None


def wrap(hname, obj, bad_sibling=False):
    """Place the subject where the hint expects it; optionally next to a sibling that violates the hint, so that the
    code explaining the rejection walks over the (conforming or not) subject again."""
    if hname.startswith('list['):
        return [obj, 0.5] if bad_sibling else [obj]
    if hname.startswith('dict[str,'):
        return {'k': obj, 'z': 0.5} if bad_sibling else {'k': obj}
    if hname.startswith('tuple['):
        return (obj, 'bad') if bad_sibling else (obj, 1)
    if hname.startswith('Iterable[') and hname.count('[') > 1:
        return [obj, 0.5] if bad_sibling else [obj]
    return obj


def wrappable(hname):
    return hname.startswith(('list[', 'dict[str,', 'tuple[')) or (hname.startswith('Iterable[') and hname.count('[') > 1)


def _work(idx):
    from beartype import beartype
    from beartype.door import is_bearable, die_if_unbearable
    from beartype.roar import BeartypeCallHintViolation
    hname = _STATE['hnames'][idx]
    h = _STATE['hints'][hname]
    subs = _STATE['subjects']
    out = {'evaluations': 0, 'consumable_cases': 0, 'violations': [], 'verdicts': set()}
    with warnings.catch_warnings():
        warnings.simplefilter('ignore')
        seen = []

        def f(a):
            seen.append(a)
            return a
        f.__annotations__ = {'a': h, 'return': h}
        from beartype import BeartypeConf, BeartypeStrategy
        conf_on = BeartypeConf(strategy=BeartypeStrategy.On)
        conf_def = BeartypeConf()

        def f2(a):
            seen.append(a)
            return a
        f2.__annotations__ = dict(f.__annotations__)

        def fk(p=None, /, *rest, a, **kw):
            seen.append(a)
            return a
        fk.__annotations__ = dict(f.__annotations__)
        try:
            g = beartype(f)
            g_on = beartype(conf=conf_on)(f2)
            g_kw = beartype(fk)
        except Exception as e:
            out['violations'].append((f'decorate:{hname}:{type(e).__name__}', f'@beartype raised {type(e).__name__}: {str(e)[:160]}', {'hint': hname}))
            return out
        iterator_family = hname.split('[')[0].replace('typing.', '') in ('Iterator', 'Generator', 'AsyncIterator', 'object') or \
            any(t in hname for t in ('[Iterator[', ',Iterator[', '[Generator[', ',Generator['))
        for sname, (mk, kind) in subs.items():
            if kind == 'cursor' and not iterator_family:
                # a one-shot object that structurally claims to be a Collection breaks the re-iterability contract the
                # property grants to collection hints: it is only a legitimate subject for Iterator / Generator hints
                continue
            for cname, items in CONTENTS.items():
                for r in _STATE['res']:
                    for entry in ('is_bearable', 'die_if_unbearable', 'decorated') + (('die_if_unbearable+bad-sibling', 'decorated+bad-sibling', 'die_if_unbearable+On+bad-sibling', 'decorated+On+bad-sibling') if wrappable(hname) else ()) + ('is_bearable+On', 'die_if_unbearable+On', 'decorated+kwonly'):
                        subj = mk(list(items))
                        x = wrap(hname, subj, entry.endswith('+bad-sibling'))
                        entry_kind = entry
                        conf = conf_on if '+On' in entry else conf_def     # every item of a collection may be read under O(n); iterators still never
                        entry = entry.split('+')[0]
                        before = snapshot(subj, kind)
                        n_before = len(subj) if kind == 'mapping' and isinstance(subj, dict) else None
                        del S.LOG[:]
                        del seen[:]
                        drive.DRAW[0] = r
                        rejected = False
                        try:
                            if entry == 'is_bearable':
                                rejected = not is_bearable(x, h, conf=conf)
                            elif entry == 'die_if_unbearable':
                                die_if_unbearable(x, h, conf=conf)
                            else:
                                res = g_kw(a=x) if '+kwonly' in entry_kind else (g_on if conf is conf_on else g)(x)
                        except BeartypeCallHintViolation:
                            rejected = True
                        except Exception as e:
                            out['violations'].append((f'exception:{type(e).__name__}:{hname}:{sname}', f'{entry} raised {type(e).__name__}: {str(e)[:120]} (hint {hname}, subject {sname} of {cname})',
                                                      {'hint': hname, 'subject': sname, 'contents': cname}))
                            continue
                        out['evaluations'] += 1
                        out['verdicts'].add((sname, rejected))
                        log = list(S.LOG)
                        del S.LOG[:]
                        rep = {'hint': hname, 'subject': sname, 'contents': cname, 'draw': r, 'entry': entry_kind, 'log': [list(l) for l in log[:12]]}
                        sig = f'{hname}:{sname}'
                        # 1. nothing consumed
                        if kind in ('oneshot', 'cursor', 'async'):
                            out['consumable_cases'] += 1
                            hint_is_iterator_family = hname.split('[')[0].replace('typing.', '') in ('Iterator', 'Generator', 'AsyncIterator') or \
                                any(t in hname for t in ('[Iterator[', ',Iterator[', '[Generator[', ',Generator['))
                            # a one-shot *iterator* must never be advanced; a structural Collection (CursorLike) may be sampled only by
                            # collection-family hints (it claims to be a re-iterable collection), never by Iterator / Generator hints
                            may_sample = kind == 'cursor' and not hint_is_iterator_family
                            advanced = [l for l in log if l[1] in ('__next__', '__anext__')]
                            if advanced and not may_sample:
                                out['violations'].append((f'iterator-advanced:{sig}', f'{entry} against {hname} advanced a {sname} ({advanced[:3]}); contents {cname}, draw {r}', rep))
                            elif kind != 'async' and not may_sample:
                                left = drain(subj, kind)
                                if left != list(items):
                                    out['violations'].append((f'iterator-consumed:{sig}', f'after {entry} against {hname} a {sname} over {items} yields {left}', rep))
                        # 2. contents unchanged; defaultdict grows no keys; __missing__ never called
                        after = snapshot(subj, kind)
                        if before != after:
                            out['violations'].append((f'mutated:{sig}', f'{entry} against {hname} changed a {sname}: {before} -> {after}', rep))
                        if any(l[1] == '__missing__' for l in log):
                            out['violations'].append((f'defaultdict-missing:{sig}', f'{entry} against {hname} triggered __missing__ on a {sname}', rep))
                        # 3. only read-only protocol methods
                        allowed = ALLOWED | (ON_REJECT if rejected else set())
                        extra = sorted({l[1] for l in log} - allowed - {'__aiter__'})
                        if extra:
                            out['violations'].append((f'method:{",".join(extra)}:{sig}', f'{entry} against {hname} invoked {extra} on a {sname} ({"rejected" if rejected else "accepted"}; contents {cname})', rep))
                        # 4. the wrapped callable sees the caller's object
                        if entry == 'decorated' and not rejected:
                            if not seen or seen[0] is not x or res is not x:
                                out['violations'].append((f'identity:{sig}', f'the wrapped callable did not receive / return the caller\'s object for {hname}', rep))
    out['verdicts'] = sorted(map(str, out['verdicts']))
    return out


def run(ctx):
    drive.install_draw()
    H = hints()
    _STATE.update(hints=H, hnames=list(H), subjects=subjects(), res=(0, 1, 2) if ctx.quick else (0, 1, 2, 3, 4, 5, 2 ** 32 - 1))
    tot = {'evaluations': 0, 'consumable_cases': 0}
    verdicts = set()
    for res in ctx.pmap(_work, range(len(H))):
        for k in tot:
            tot[k] += res[k]
        verdicts |= set(res['verdicts'])
        for v in res['violations']:
            ctx.violation(*v)
    ctx.cover(
        evaluations=tot['evaluations'], states=len(H) * len(_STATE['subjects']) * len(CONTENTS), transitions=tot['evaluations'],
        traces_validated_against_impl=tot['evaluations'], distinct_nontrivial=tot['consumable_cases'], hints=len(H), subjects=list(_STATE['subjects']),
        contents=list(CONTENTS), draws=list(_STATE['res']), distinct_subject_verdicts=len(verdicts), exhaustive=True,
        samples=[list(H)[5], list(H)[40], 'SizedOneShot over [10, 20, 30]'],
        rule=(f'E1: {len(H)} hints (26 base hints of the iterable / iterator / generator / async / container / reversible / collection / sequence / '
              'set / mapping families and 6 wrappers - Optional, Union, list item, dict value, tuple slot, Iterable item - around 7 of them) x '
              f'{len(_STATE["subjects"])} subject kinds (generators, list iterators, one-shot iterators without / with __len__ / with __len__ and '
              '__contains__, re-iterable non-collections, counting builtin and abc collections, dict and abc mappings, defaultdicts, async iterators, '
              'dict views) x 5 contents (conforming, violating, mixed, empty, single) x draws x 3 entry points.  distinct_nontrivial = cases whose '
              'subject is consumable (one-shot / async).'),
    )
    ctx.assume('a structural Collection (has __len__, __iter__, __contains__) may be sampled by collection-family hints even if it is one-shot: the property '
               'allows iteration of re-iterable collections and a Collection claims to be one')


def replay(ctx, case):
    print(case)
