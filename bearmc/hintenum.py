"""E1: bounded-exhaustive enumeration of hint terms, simplest first.

Levels (a "level" is the nesting level of container constructors; unions,
Annotated and type[...] wrappers do not add a level):

    L0   atoms, literals, unions / Optional / type[...] / Annotated / user generics over atoms
    L1   every container constructor over every L0 term (two-argument and fixed-tuple
         constructors over the representative subset R0 for all but one position),
         unions / Annotated over L1 representatives
    L2   every container constructor over the representative subset R1 of L1
    L3   core constructors over the representative subset R2 of L2

``families='core'`` restricts the container families to one spelling per
snippet family (quick tier); ``'all'`` uses every family and both spellings.
"""
from __future__ import annotations

from .model import hintsem as HS

A = lambda n: ('a', n)

ATOMS0 = ['int', 'bool', 'str', 'float', 'bytes', 'none', 'object', 'any', 'K', 'K2', 'N', 'T', 'TB', 'TC', 'P', 'E',
          'G', 'GL', 'complex', 'NoneType', 'IE', 'NL', 'TL', 'TU', 'DupA', 'DupB', 'TSi', 'TSs']
# hint kinds beartype reduces to shallower checks (C01 / C02 / C03 / C09 / C10 only; not part of the is_subhint matrix of C19)
ATOMS_EXTRA = ['Hashable', 'Sized', 'Callable_', 'LStr', 'SupportsInt', 'AnyStr', 'PatS', 'MatS', 'TD', 'TDo', 'NT', 'DC', 'GenI', 'CtxI', 'PathS',
               'AL', 'ALgi', 'ALr', 'Type_', 'Tuple_', 'List_', 'Dict_', 'TupU', 'TupUU', 'InitI', 'FinI', 'GRegI', 'GOutI']
LITS0 = [('lit', '1'), ('lit', "'a'"), ('lit', 'True'), ('lit', 'None'), ('lit', 'E.A'), ('lit', '1', "'a'", 'None'),
         ('lit', '1', 'True'), ('lit', "b'x'", '0'),
         # every order of equal-valued members of different types (bool/int/IntEnum), and plain reorderings
         ('lit', 'True', '1'), ('lit', 'False', '0', "'a'"), ('lit', '0', 'False', "'a'"), ('lit', 'IE.X', '1'),
         ('lit', '1', 'IE.X'), ('lit', 'IE.X', 'True', '1'), ('lit', "'a'", '1'), ('lit', '1', "'a'"), ('lit', 'E.A', '1'),
         ('lit', 'None', '1'), ('lit', 'IE.Y', '2', 'None')]

CORE_C1 = ['list', 'Sequence', 'abc.MutableSequence', 'set', 'FrozenSet', 'abc.Set', 'deque', 'Collection',
           'abc.KeysView', 'ValuesView', 'Iterable', 'abc.Container', 'Reversible', 'Iterator', 'Counter']
CORE_C2 = ['dict', 'Mapping', 'abc.MutableMapping', 'DefaultDict', 'OrderedDict', 'ChainMap', 'ItemsView']


def level0(extra=True):
    out = [A(n) for n in ATOMS0] + ([A(n) for n in ATOMS_EXTRA] if extra else []) + list(LITS0)
    u = []
    pairs = [('int', 'str'), ('str', 'int'), ('int', 'none'), ('K', 'none'), ('str', 'bytes'), ('int', 'float'),
             ('P', 'int'), ('K', 'Other'), ('bool', 'str'), ('T', 'int'), ('any', 'int'), ('object', 'str'),
             ('E', 'int'), ('N', 'str'), ('TC', 'K')]
    for a, b in pairs:
        u.append(('u', 'U', A(a), A(b)))
    for a, b in pairs[:6]:
        u.append(('u', 'B', A(a), A(b)))
    for a in ('int', 'str', 'K', 'float', 'P', 'any', 'T'):
        u.append(('u', 'O', A(a)))
    u.append(('u', 'U', A('int'), A('str'), A('none')))
    u.append(('u', 'U', ('u', 'U', A('int'), A('str')), A('bytes')))          # nested union (typing flattens)
    u.append(('u', 'U', ('lit', '1'), A('str')))                                  # PEP + non-PEP members
    u.append(('u', 'U', ('lit', "'a'"), ('lit', '1')))
    u.append(('u', 'B', ('lit', 'None'), A('K')))
    out += u
    out += same_family_unions()
    for sp in ('b', 't'):
        for inner in (A('int'), A('K'), A('object'), A('any'), ('u', 'U', A('int'), A('str')), A('E')):
            out.append(('ty', sp, inner))
    out.append(('u', 'U', ('ty', 'b', A('int')), A('none')))
    anns = [('is', 'pos'), ('is', 'truthy'), ('iseq', '1'), ('isinst', ('int',)), ('not', ('is', 'pos')),
            ('and', ('is', 'truthy'), ('isinst', ('int', 'str'))), ('or', ('iseq', "'a'"), ('is', 'pos'))]
    for base in ('int', 'object', 'str'):
        for v in anns:
            out.append(('ann', A(base), v))
    out.append(('ann', A('int'), ('is', 'pos'), ('is', 'truthy')))
    out.append(('u', 'U', ('ann', A('int'), ('is', 'pos')), A('str')))
    for g in ('G', 'GL'):
        for a in ('int', 'str', 'T'):
            out.append(('g', g, A(a)))
    return out


def same_family_unions():
    """Unions whose members are subscriptions of the *same* factory (they collide under any key coarser than the
    full child hint), in both orders, plus unions of literals / Annotated over the same base."""
    i, s, k = A('int'), A('str'), A('K')
    fams = [lambda c: ('c1', 'list', c), lambda c: ('c1', 'Sequence', c), lambda c: ('c1', 'set', c),
            lambda c: ('c1', 'Collection', c), lambda c: ('c1', 'Iterable', c), lambda c: ('c1', 'deque', c),
            lambda c: ('tv', 'b', c), lambda c: ('tf', 'b', c), lambda c: ('tf', 'b', c, c), lambda c: ('c2', 'dict', s, c),
            lambda c: ('c2', 'dict', c, i), lambda c: ('c2', 'Mapping', s, c), lambda c: ('g', 'GL', c), lambda c: ('g', 'G', c),
            lambda c: ('ty', 'b', c), lambda c: ('ann', c, ('is', 'truthy')), lambda c: ('c1', 'Counter', c),
            lambda c: ('c2', 'ItemsView', s, c), lambda c: ('c1', 'ValuesView', c)]
    out = []
    for f in fams:
        out.append(('u', 'U', f(i), f(s)))
        out.append(('u', 'U', f(s), f(i)))
        out.append(('u', 'U', f(i), f(s), A('none')))
        out.append(('u', 'U', f(k), f(i), f(s)))
    out += [('u', 'U', ('lit', '1'), ('lit', "'a'")), ('u', 'U', ('lit', 'True'), ('lit', '1')), ('u', 'U', ('lit', '1'), ('lit', 'True')),
            ('u', 'U', ('ann', i, ('is', 'pos')), ('ann', i, ('not', ('is', 'pos')))),
            ('u', 'U', ('ann', i, ('is', 'pos')), ('ann', s, ('is', 'truthy'))),
            ('u', 'U', ('ann', s, ('is', 'truthy')), ('ann', i, ('is', 'pos'))),
            ('u', 'U', ('ann', i, ('iseq', '1')), ('ann', i, ('is', 'never')), A('none')),
            ('u', 'U', ('c1', 'list', i), ('c1', 'List', s)), ('u', 'U', ('tf', 'b', i), ('tf', 't', s)),
            ('u', 'U', ('tf', 'b', i, s), ('tf', 'b', s, i)), ('u', 'U', ('tf', 'b', i), ('tf', 'b', i, i), ('tf', 'b')),
            ('u', 'U', ('c2', 'dict', s, i), ('c2', 'dict', i, s)),
            ('u', 'U', ('c1', 'list', ('c1', 'list', i)), ('c1', 'list', ('c1', 'list', s)))]
    return out


def reps0():
    """R0: representatives of L0 used where a full product would explode."""
    return [A('int'), A('str'), A('K'), A('any'), A('none'), ('u', 'U', A('int'), A('str')), ('u', 'O', A('int')),
            ('lit', '1', "'a'", 'None'), ('ty', 'b', A('int')), ('ann', A('int'), ('is', 'pos')), A('T'), A('float')]


KEYS0 = [A('str'), A('int'), A('K'), A('any'), ('u', 'U', A('int'), A('str')), ('lit', '1', "'a'", 'None')]


def containers_over(children, c1_fams, c2_fams, key_terms, pair_reps, tuples=True):
    out = []
    for c in children:
        for f in c1_fams:
            out.append(('c1', f, c))
        if tuples:
            out.append(('tv', 'b', c))
            out.append(('tv', 't', c))
            out.append(('tf', 'b', c))
    for f in c2_fams:
        for k in key_terms:
            for v in children if len(children) <= 16 else pair_reps:
                out.append(('c2', f, k, v))
    return out


def tuples_fixed(reps, sp=('b', 't')):
    out = [('tf', s) for s in sp]
    for s in sp:
        for a in reps:
            for b in reps:
                out.append(('tf', s, a, b))
    li = ('c1', 'list', A('int'))
    out += [('tf', 'b', li, li), ('tf', 'b', li, A('int'), li), ('tf', 'b', A('int'), A('int'), A('str'), A('int')),
            ('tf', 'b', ('u', 'O', A('int')), ('u', 'O', A('int'))), ('c2', 'dict', A('int'), A('int')),
            ('c2', 'dict', ('tv', 'b', A('int')), ('tv', 'b', A('int'))), ('c2', 'Mapping', A('str'), A('str')),
            ('tf', 'b', ('lit', '1'), ('lit', '1')), ('tf', 'b', ('lit', '1'), ('lit', 'True'))]
    r3 = reps[:3]
    for a in r3:
        for b in r3:
            for c in r3:
                out.append(('tf', 'b', a, b, c))
    return out


def level1(families='all'):
    c1 = CORE_C1 if families == 'core' else list(HS.C1)
    c2 = CORE_C2 if families == 'core' else list(HS.C2)
    sfu = set(same_family_unions())
    L0 = [t for t in level0() if t not in sfu and t not in (A('FinI'), A('InitI'))]       # Final / InitVar are root-only
    R0 = reps0()
    out = containers_over(L0, c1, c2, KEYS0 if families == 'all' else KEYS0[:3], R0)
    out += tuples_fixed(R0[:8] if families == 'all' else R0[:4], ('b', 't') if families == 'all' else ('b',))
    for a in ('int', 'str', 'T'):
        pass
    # unions / Annotated over L1 representatives (PEP-compliant union children)
    li, ds, st = ('c1', 'list', A('int')), ('c2', 'dict', A('str'), A('int')), ('c1', 'set', A('str'))
    out += [
        ('u', 'O', li), ('u', 'U', li, A('none')), ('u', 'B', li, A('none')), ('u', 'U', li, ds), ('u', 'U', li, st, A('int')),
        ('u', 'U', li, ('c1', 'list', A('str'))), ('u', 'U', ('tf', 'b', A('int'), A('str')), ('tf', 'b', A('str'))),
        ('u', 'U', ('tv', 'b', A('int')), li), ('u', 'U', ds, ('c2', 'dict', A('int'), A('str'))),
        ('u', 'U', ('c1', 'Sequence', A('int')), A('K'), A('none')),
        ('ann', li, ('is', 'truthy')), ('ann', ds, ('is', 'truthy')), ('ann', ('tv', 'b', A('int')), ('not', ('is', 'truthy'))),
        ('ann', ('c1', 'Sequence', A('str')), ('isinst', ('list',))),
    ]
    return out


def reps1(families='all'):
    """R1: one representative per snippet family (and spelling, for 'all') of L1 plus unions/tuples."""
    i, s = A('int'), A('str')
    u = ('u', 'U', i, s)
    r = [
        ('c1', 'list', i), ('c1', 'list', u), ('c1', 'Sequence', s), ('tv', 'b', i), ('tf', 'b', i, s), ('tf', 'b'),
        ('c1', 'set', i), ('c1', 'FrozenSet', s), ('c1', 'deque', i), ('c1', 'Collection', i), ('c1', 'Iterable', i),
        ('c1', 'abc.Container', s), ('c1', 'Reversible', i), ('c1', 'abc.KeysView', s), ('c1', 'ValuesView', i),
        ('c1', 'Iterator', i), ('c1', 'Counter', s),
        ('c2', 'dict', s, i), ('c2', 'Mapping', i, u), ('c2', 'DefaultDict', s, s), ('c2', 'ItemsView', s, i),
        ('c2', 'ChainMap', s, i),
        ('u', 'O', ('c1', 'list', i)), ('u', 'U', ('c1', 'list', i), ('c2', 'dict', s, i)),
        ('g', 'GL', i), ('ann', ('c1', 'list', i), ('is', 'truthy')), ('c1', 'list', A('any')), ('c1', 'list', A('T')),
        ('ty', 'b', i), ('c1', 'list', ('lit', '1', "'a'", 'None')),
    ]
    if families == 'all':
        r += [('c1', 'List', s), ('c1', 'abc.MutableSequence', i), ('tv', 't', s), ('tf', 't', s, i, i),
              ('c1', 'abc.Set', i), ('c1', 'MutableSet', s), ('c1', 'Deque', s), ('c2', 'OrderedDict', i, s),
              ('c2', 'abc.MutableMapping', s, ('u', 'O', i)), ('c1', 'list', ('ann', i, ('is', 'pos'))),
              ('c1', 'abc.Iterable', s), ('c1', 'list', A('K')), ('c2', 'dict', A('K'), A('none'))]
    return r


HASHABLE_KEY_REPS1 = [('tf', 'b', A('int'), A('str')), ('tv', 'b', A('int')), ('c1', 'FrozenSet', A('str'))]


def level2(families='all'):
    c1 = CORE_C1 if families == 'core' else list(HS.C1)
    c2 = CORE_C2 if families == 'core' else list(HS.C2)
    R1 = reps1(families)
    keys = [A('str'), A('int')] + (HASHABLE_KEY_REPS1 if families == 'all' else HASHABLE_KEY_REPS1[:1])
    out = containers_over(R1, c1, c2, keys, R1[:10])
    # fixed tuples mixing containers and atoms
    r = [A('int'), ('c1', 'list', A('int')), ('c2', 'dict', A('str'), A('int')), ('tv', 'b', A('str'))]
    out += [('tf', 'b', a, b) for a in r for b in r if a is not b or a[0] != 'a']
    li2 = ('c1', 'list', ('c1', 'list', A('int')))
    out += [('u', 'O', li2), ('u', 'U', li2, ('c2', 'dict', A('str'), ('c1', 'list', A('int')))),
            ('ann', li2, ('is', 'truthy'))]
    return out


def level2_deep():
    """Every core single-argument container family (and variadic / one-slot tuples, dict values) over *every* level-1 core
    hint: the complete product of parent and child snippets at nesting level 2 (used by C01's thorough tier only; the
    accepting path is cheap)."""
    L1 = [t for t in level1('core') if t[0] in ('c1', 'c2', 'tv', 'tf', 'g')]
    out = []
    for c in L1:
        for f in ('list', 'Sequence', 'set', 'deque', 'Collection', 'Iterable', 'abc.KeysView', 'ValuesView', 'abc.Container', 'Counter'):
            if f in ('set', 'abc.KeysView', 'Counter') and c[0] not in ('tv', 'tf'):
                continue            # items / keys must be hashable: only tuples qualify
            out.append(('c1', f, c))
        out.append(('tv', 'b', c))
        out.append(('tf', 'b', c))
        out.append(('c2', 'dict', A('str'), c))
        out.append(('u', 'O', c))
    return out


def reps2():
    i, s = A('int'), A('str')
    li, ds = ('c1', 'list', i), ('c2', 'dict', s, i)
    return [('c1', 'list', li), ('c1', 'list', ds), ('c2', 'dict', s, li), ('c2', 'dict', s, ds), ('tv', 'b', li),
            ('tf', 'b', li, ds), ('c1', 'set', ('tf', 'b', i, s)), ('c1', 'Sequence', ('u', 'O', li)),
            ('c1', 'Iterable', li), ('c1', 'deque', ('c1', 'deque', s)), ('c1', 'Collection', ('c1', 'set', i)),
            ('c2', 'Mapping', ('tf', 'b', i, s), ('tv', 'b', s)), ('u', 'U', ('c1', 'list', li), i),
            ('c1', 'ValuesView', li), ('c2', 'ItemsView', s, li), ('g', 'GL', li)]


def level3():
    c1 = ['list', 'Sequence', 'set', 'deque', 'Collection', 'Iterable', 'ValuesView']
    c2 = ['dict', 'Mapping', 'ItemsView']
    R2 = reps2()
    out = []
    for c in R2:
        for f in c1:
            if f == 'set' and c[0] in ('c1', 'c2', 'g', 'u') and not (c[0] == 'c1' and c[1] in ('FrozenSet',)):
                continue        # set items must be hashable: unsatisfiable except by the empty set; skip
            out.append(('c1', f, c))
        out.append(('tv', 'b', c))
        out.append(('tf', 'b', c, A('int')))
        for f in c2:
            out.append(('c2', f, A('str'), c))
    return out


def hints(tier: str):
    """The enumerated hint set for a tier, simplest first, without duplicates."""
    if tier == 'quick':
        parts = [level0(), level1('core'), level2('core')]
    else:
        parts = [level0(), level1('all'), level2('all'), level3()]
    seen, out = set(), []
    for p in parts:
        for t in p:
            if t not in seen:
                seen.add(t)
                out.append(t)
    return out


def shards(hints, n):
    """Split into n shards such that
    (a) hints which are *equal as Python objects* (Literal[1, True] == Literal[True, 1], Union reorderings, typing/builtin
        spellings that compare equal) never share a shard: beartype memoises per hint equality, so in one process only
        the first of an equality class is ever compiled;
    (b) hints which are *unequal but print the same* (two classes / TypeVars with one name, containers over them) do share
        a shard, one right after the other: anything keyed on repr() instead of the hint then collides in that process.
    Each shard must run in a fresh process (Ctx.pmap(fresh=True))."""
    out = [[] for _ in range(n)]
    held = [set() for _ in range(n)]            # equality keys already in each shard
    first_of_repr = {}
    for idx, t in enumerate(hints):
        try:
            h = build(t) if False else HS.build(t)
            hash(h)
            eq = h
        except Exception:
            h, eq = None, ('unhashable', idx)
        try:
            r = repr(h) if h is not None else ('unrepr', idx)
        except Exception:
            r = ('unrepr', idx)
        k = first_of_repr.setdefault(r, idx) % n
        for _ in range(n):
            if eq not in held[k]:
                break
            k = (k + 1) % n
        held[k].add(eq)
        out[k].append(t)
    return out


def shape(t) -> str:
    """Abstraction of a term used in violation signatures: constructor tags and families are
    kept, atoms are kept by name, literal members are dropped."""
    tag = t[0]
    if tag == 'a':
        return t[1]
    if tag == 'lit':
        return 'Lit'
    if tag == 'u':
        return t[1] + '(' + '|'.join(shape(m) for m in t[2:]) + ')'
    if tag == 'tf':
        return 'tf(' + ','.join(shape(m) for m in t[2:]) + ')'
    if tag == 'tv':
        return 'tv(' + shape(t[2]) + ')'
    if tag == 'c1':
        return t[1] + '[' + shape(t[2]) + ']'
    if tag == 'c2':
        return t[1] + '[' + shape(t[2]) + ',' + shape(t[3]) + ']'
    if tag == 'ty':
        return 'type[' + shape(t[2]) + ']'
    if tag == 'ann':
        return 'Ann[' + shape(t[1]) + ';' + ','.join(v[0] for v in t[2:]) + ']'
    if tag == 'g':
        return t[1] + '[' + shape(t[2]) + ']'
    if tag == 'annm':
        return 'AnnM[' + shape(t[1]) + ']'
    if tag == 'call':
        return 'Callable[' + ('...' if t[2] == '...' else ','.join(shape(p) for p in t[2])) + '->' + shape(t[3]) + ']'
    return '?'
